#!/usr/bin/env python3
"""Regenerates the generated tables of DESIGN.md section 11 (between markers) from seeded/*/meta.json and known_findings.json."""
import json, glob, os, re
V = os.path.dirname(os.path.dirname(os.path.abspath(__file__)))
def short(v):
    x = v.split('replay=')[1].split('.json')[0].split('/')[-1]
    x = x.split('._')[-1] if '._' in x else x.split('chainlib.')[-1]
    return '`' + x + '`'
lines = ["| seeded change | file | what it does | first verdict | obligation(s) that now fail |", "|---|---|---|---|---|"]
n = miss = 0
for d in sorted(glob.glob(V + '/seeded/*')):
    m = json.load(open(d + '/meta.json'))
    pid = os.path.basename(d)
    n += 1
    first = 'caught'
    if m.get('history', '').startswith('MISSED'):
        first = 'MISSED; strengthened'
        miss += 1
    if m.get('history', '').startswith('NOT A VIOLATION'):
        first = 'not flagged (see text)'
    summ = re.sub(r'\s+', ' ', m['summary'])
    summ = summ if len(summ) < 260 else summ[:257] + '...'
    summ = summ.replace('|', '\\|')
    v = sorted({short(x) for x in m['check_verdict']['violations']})
    lines.append("| %s | %s | %s | %s | %s |" % (pid, ', '.join(os.path.basename(f) for f in m['files_changed']), summ, first, '<br>'.join(v[:3]) or '-'))
lines.append("")
lines.append("%d seeded changes, %d caught by the check as it stood, %d missed at first (each miss was answered by strengthening the contracts, never by touching the change); all %d are caught now (`tools/selftest.sh`)." % (n, n - miss, miss, n))
kf = json.load(open(V + '/known_findings.json'))
fl = ["| property | commit | what failed |", "|---|---|---|"]
for k in kf:
    if k['status'] == 'fixed':
        w = k['what'].split(k['commit'], 1)[-1].strip().replace('|', '\\|')
        fl.append("| %s | `%s` | %s |" % (k['property'], k['commit'], w))
ol = ["| property | obligation | what fails |", "|---|---|---|"]
for k in kf:
    if k['status'] == 'open':
        ol.append("| %s | `%s` (class `%s`) | %s |" % (k['property'], k['obligation'].split('lava/v5/')[-1], k.get('class', ''), k['what'].replace('|', '\\|')))
p = V + '/DESIGN.md'
s = open(p).read()
def put(tag, body):
    global s
    a, b = '<!-- gen:%s -->' % tag, '<!-- /gen:%s -->' % tag
    if a in s:
        s = s[:s.index(a) + len(a)] + "\n" + body + "\n" + s[s.index(b):]
put('seeded', "\n".join(lines))
put('fixed', "\n".join(fl))
put('open', "\n".join(ol))
open(p, 'w').write(s)
print("seeded", n, "missed-first", miss, "fixed", len(fl) - 2, "open", len(ol) - 2)
