#!/usr/bin/env python3
"""Regenerates the generated tables of DESIGN.md section 11 (between markers) from seeded/*/meta.json and known_findings.json."""
import json, glob, os, re
V = os.path.dirname(os.path.dirname(os.path.abspath(__file__)))
def short(v):
    x = v.split('replay=')[1].split('.json')[0].split('/')[-1]
    x = x.split('._')[-1] if '._' in x else x.split('chainlib.')[-1]
    return '`' + x + '`'
lines = ["| seeded change | file | what it does | first verdict | obligation(s) that now fail |", "|---|---|---|---|---|"]
n = miss = 0
for d in sorted(glob.glob(V + '/seeded/*')):
    m = json.load(open(d + '/meta.json'))
    pid = os.path.basename(d)
    n += 1
    first = 'caught'
    if m.get('history', '').lower().startswith('missed'):
        first = 'MISSED; strengthened'
        miss += 1
    if m.get('history', '').startswith('NOT A VIOLATION'):
        first = 'not flagged (see text)'
    summ = re.sub(r'\s+', ' ', m['summary'])
    summ = summ if len(summ) < 260 else summ[:257] + '...'
    summ = summ.replace('|', '\\|')
    v = sorted({short(x) for x in m['check_verdict']['violations']})
    lines.append("| %s | %s | %s | %s | %s |" % (pid, ', '.join(os.path.basename(f) for f in m['files_changed']), summ, first, '<br>'.join(v[:3]) or '-'))
unc = sorted(glob.glob(V + '/seeded_uncaught/*'))
for d in unc:
    m = json.load(open(d + '/meta.json'))
    summ = re.sub(r'\s+', ' ', m['summary']); summ = (summ if len(summ) < 260 else summ[:257] + '...').replace('|', '\\|')
    why = re.sub(r'\s+', ' ', open(d + '/WHY_NOT_CAUGHT.txt').read()).strip().replace('|', '\\|')
    lines.append("| %s | %s | %s | **NOT CAUGHT** | - (%s) |" % (os.path.basename(d), ', '.join(os.path.basename(f) for f in m['files_changed']), summ, why[:400]))
rej = sorted(glob.glob(V + '/seeded_rejected/*'))
lines.append("")
if unc:
    lines.append("%d confirmed seeded change(s) are NOT caught and kept under `/verif/seeded_uncaught/` with the reason (not part of the must-fail corpus)." % len(unc))
obs = sorted(glob.glob(V + '/seeded_obsolete/*'))
if obs:
    lines.append("%d seeded change(s) stopped being a violation when a genuine defect next to them was repaired upstream and are kept under `/verif/seeded_obsolete/` with the reason: %s." % (len(obs), ', '.join(os.path.basename(d) for d in obs)))
if rej:
    lines.append("%d proposed change(s) were judged not to violate the property in any reachable state and are kept under `/verif/seeded_rejected/` with the reason: %s." % (len(rej), ', '.join(os.path.basename(d) for d in rej)))
lines.append("")
lines.append("%d seeded changes, %d caught by the check as it stood, %d missed at first (each miss was answered by strengthening the contracts, never by touching the change); all %d are caught now (`tools/selftest.sh`)." % (n, n - miss, miss, n))
kf = json.load(open(V + '/known_findings.json'))
fl = ["| property | commit | what failed |", "|---|---|---|"]
for k in kf:
    if k['status'] == 'fixed':
        w = k['what'].split(k['commit'], 1)[-1].strip().replace('|', '\\|')
        fl.append("| %s | `%s` | %s |" % (k['property'], k['commit'], w))
ol = ["| property | obligation | what fails |", "|---|---|---|"]
for k in kf:
    if k['status'] == 'open':
        ol.append("| %s | `%s` (class `%s`) | %s |" % (k['property'], k['obligation'].split('lava/v5/')[-1], k.get('class', ''), k['what'].replace('|', '\\|')))
p = V + '/DESIGN.md'
s = open(p).read()
def put(tag, body):
    global s
    a, b = '<!-- gen:%s -->' % tag, '<!-- /gen:%s -->' % tag
    if a in s:
        s = s[:s.index(a) + len(a)] + "\n" + body + "\n" + s[s.index(b):]
put('seeded', "\n".join(lines))
put('fixed', "\n".join(fl))
put('open', "\n".join(ol))
# behaviour-preserving edits
bp = V + '/benign/results.json'
if os.path.exists(bp):
    res = json.load(open(bp))
    first = json.load(open(V + '/benign/results_first_run.json')) if os.path.exists(V + '/benign/results_first_run.json') else []
    def stats(rs):
        runs = sum(len(r['checks']) for r in rs)
        alarms = [(r, c) for r in rs for c, x in r['checks'].items() if x['violations'] or x['exit'] == 1]
        undec = [(r, c) for r in rs for c, x in r['checks'].items() if x['exit'] == 2 or x['undecided']]
        return runs, alarms, undec
    runs, alarms, undec = stats(res)
    fruns, falarms, fundec = stats(first)
    kinds = {}
    for r in res:
        k = re.sub(r'\s*\(.*', '', r.get('kind', '') or 'other').strip() or 'other'
        kinds[k] = kinds.get(k, 0) + 1
    bl = []
    bl.append("%d behaviour-preserving patches (`/verif/benign/{A,B,C}/*.diff`, each with the reason it preserves behaviour in `index.json`), written by three sub-agents that were given the list of functions under contract but not the contracts; every patch compiles and keeps the package tests green. `tools/try_benign.sh` applies each to a scratch worktree and runs every check whose packages contain a touched directory: %d check runs." % (len(res), runs))
    bl.append("")
    bl.append("Kinds of edit: " + "; ".join("%s (%d)" % (k, v) for k, v in sorted(kinds.items(), key=lambda kv: -kv[1])[:14]) + ".")
    bl.append("")
    bl.append("First run (engine as it stood before the run): %d alarm(s) in %d runs - %s. Each was a defect of the machinery, corrected in the engine (section 11.6), never by touching the patch or the contract's meaning." % (len(falarms), fruns, "; ".join("%s on %s/%s" % (c, r['set'], r['patch']) for r, c in falarms) or "none"))
    bl.append("")
    bl.append("Final run (engine as delivered): %d alarm(s) in %d runs%s. %d run(s) ended undecided (a contract clause names a local the edit removed; exit 0 with an `UNDECIDED` line, evidence level \"other\"): %s." % (
        len(alarms), runs, (" - " + "; ".join("%s on %s/%s" % (c, r['set'], r['patch']) for r, c in alarms)) if alarms else "", len(undec), "; ".join("%s on %s/%s" % (c, r['set'], r['patch']) for r, c in undec) or "none"))
    put('benign', "\n".join(bl))
open(p, 'w').write(s)
print("seeded", n, "missed-first", miss, "fixed", len(fl) - 2, "open", len(ol) - 2)
