#!/usr/bin/env python3
# harvest_seeded.py <ID>...: copies a sub-agent's seeded change from /tmp/wt/<ID>.out into /verif/seeded/<ID>/ once
# /tmp/confirm_<ID>.log says CONFIRMED, and records my own confirmation and the check's verdict on it in meta.json
import json, os, shutil, sys, re
ROOT = os.environ.get("SEEDROOT", "/tmp/wt")
SUF = os.environ.get("SEEDSUFFIX", "")
for pid in sys.argv[1:]:
    src = f"{ROOT}/{pid}.out"
    log = open(f"/tmp/confirm_{pid}{SUF}.log").read()
    if f"CONFIRMED {pid}" not in log or "NOT-CONFIRMED" in log:
        print(pid, "not confirmed, skipped"); continue
    det = open(f"/tmp/det_{pid}{SUF}.log").read()
    viol = [l.strip() for l in det.splitlines() if l.startswith("VIOLATION")]
    summ = [l.strip() for l in det.splitlines() if l.startswith(pid + ":")]
    dst = f"/verif/seeded/{pid}{SUF}"
    os.makedirs(dst, exist_ok=True)
    shutil.copy(f"{src}/patch.diff", f"{dst}/patch.diff")
    shutil.copy(f"{src}/demo_test.go", f"{dst}/demo_test.go")
    meta = json.load(open(f"{src}/meta.json"))
    meta["author"] = "fresh sub-agent given only the property text and a scratch worktree (nothing from /verif)"
    meta["confirmed_by_builder"] = {
        "script": "tools/confirm_seeded.sh (apply patch; go build ./...; existing tests of the touched packages; demo with and without the change)",
        "log": [l for l in log.splitlines() if l.strip()],
    }
    meta["check_verdict"] = {"command": f"./check {pid}", "exit": 1 if viol else 0, "violations": viol, "summary": summ}
    note = f"/tmp/seednote_{pid}{SUF}.txt"
    if os.path.exists(note):
        meta["history"] = open(note).read().strip()
    meta["apply"] = "git -C /repo apply /verif/seeded/%s/patch.diff ; undo: git -C /repo checkout -- ." % (pid + SUF)
    meta["demo"] = "copy demo_test.go into %s as zz_seed_demo_test.go and run go test -vet=off -run 'Demo|Seed|TestC[0-9]+' there" % meta.get("demo_package_dir", "?")
    json.dump(meta, open(f"{dst}/meta.json", "w"), indent=1)
    print(pid, "harvested:", len(viol), "violation line(s)")
