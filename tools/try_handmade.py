#!/usr/bin/env python3
"""Hand-made behaviour-preserving edits on the functions that came under contract in the last session (C30, C33):
applies each textual edit to /repo, runs the owning check, reverts. Prints one line per edit; any VIOLATION is a false alarm."""
import subprocess, sys, json, os
R = '/repo/'
EDITS = [
 ("C33", "protocol/relaycore/relay_processor.go", "swap comparison operands in the largest-group scan",
  "		if count.count > maxCount {", "		if maxCount < count.count {"),
 ("C33", "protocol/relaycore/relay_processor.go", "reorder two independent statements (empty-response bookkeeping)",
  "			nilReplies++\n			nilReplyIdx = idx\n", "			nilReplyIdx = idx\n			nilReplies++\n"),
 ("C33", "protocol/relaycore/relay_processor.go", "increment written as an assignment",
  "				count.count++\n", "				count.count = count.count + 1\n"),
 ("C33", "protocol/relaycore/relay_processor.go", "introduce a temporary for the group's new size in handleResponse",
  "		if rp.quorumMap[hash] > rp.currentQuorumEqualResults {\n			rp.currentQuorumEqualResults = rp.quorumMap[hash]\n		}",
  "		groupSize := rp.quorumMap[hash]\n		if groupSize > rp.currentQuorumEqualResults {\n			rp.currentQuorumEqualResults = groupSize\n		}"),
 ("C33", "protocol/relaycore/relay_processor.go", "split the && condition of the empty-response quorum into nested ifs",
  "	if nilReplies >= crossValidationSize && maxCount < crossValidationSize {\n		maxCount = nilReplies\n		mostCommonResult = results[nilReplyIdx]\n		utils.LavaFormatInfo(\"🔍 [Quorum] Nil replies reached quorum\",\n			utils.LogAttr(\"GUID\", rp.guid),\n			utils.LogAttr(\"nilRepliesCount\", nilReplies),\n			utils.LogAttr(\"requiredQuorumSize\", crossValidationSize),\n		)\n	}",
  "	if nilReplies >= crossValidationSize {\n		if maxCount < crossValidationSize {\n			maxCount = nilReplies\n			mostCommonResult = results[nilReplyIdx]\n			utils.LavaFormatInfo(\"🔍 [Quorum] Nil replies reached quorum\",\n				utils.LogAttr(\"GUID\", rp.guid),\n				utils.LogAttr(\"nilRepliesCount\", nilReplies),\n				utils.LogAttr(\"requiredQuorumSize\", crossValidationSize),\n			)\n		}\n	}"),
 ("C30", "protocol/chaintracker/wanted_block_data.go", "reassociate the latest-relative translation",
  "	res := request - spectypes.LATEST_BLOCK + latestBlock", "	res := latestBlock + (request - spectypes.LATEST_BLOCK)"),
 ("C30", "protocol/chaintracker/wanted_block_data.go", "introduce a temporary for the number of indexes",
  "	indexes := make([]int, br.endIndexFromEarliest-br.startIndexFromEarliest+1)", "	count := br.endIndexFromEarliest - br.startIndexFromEarliest + 1\n	indexes := make([]int, count)"),
 ("C30", "protocol/chaintracker/chain_tracker.go", "introduce a temporary for the last stored index in hashesOverlapIndexes",
  "	blocksQueueEnd := savedBlocks - 1 + readIndexDiff // this", "	lastStored := savedBlocks - 1\n	blocksQueueEnd := lastStored + readIndexDiff // this"),
 ("C30", "protocol/chaintracker/chain_tracker.go", "name the kept part before appending in replaceBlocksQueue",
  "		cs.blocksQueue = append(cs.blocksQueue[blocksQueueStartIndex:blocksQueueEndIndex], newBlocksQueue[newQueueStartIndex:]...)",
  "		kept := cs.blocksQueue[blocksQueueStartIndex:blocksQueueEndIndex]\n		cs.blocksQueue = append(kept, newBlocksQueue[newQueueStartIndex:]...)"),
 ("C30", "protocol/chaintracker/chain_tracker.go", "swap comparison operands in gotNewBlock",
  "	return newLatestBlock > cs.GetAtomicLatestBlockNum()", "	return cs.GetAtomicLatestBlockNum() < newLatestBlock"),
 ("C30", "protocol/chaintracker/chain_tracker.go", "swap the operands of the || that starts a poll step",
  "	if gotNewBlock || forked {", "	if forked || gotNewBlock {"),
 ("C30", "protocol/chaintracker/wanted_block_data.go", "swap the two independent wanted tests in WantedBlocksData.IsWanted",
  "	if wbd.specificBlock.IsWanted(blockNum) {\n		return true\n	}\n	// if is in range [from,to) return true\n	if wbd.rangeBlocks.IsWanted(blockNum) {\n		return true\n	}",
  "	if wbd.rangeBlocks.IsWanted(blockNum) {\n		return true\n	}\n	// if is the specific block return true\n	if wbd.specificBlock.IsWanted(blockNum) {\n		return true\n	}"),
]
out = []
for k, (prop, f, what, a, b) in enumerate(EDITS):
    p = R + f
    s = open(p).read()
    if s.count(a) != 1:
        print("%02d %s: pattern found %d times, skipped (%s)" % (k, prop, s.count(a), what)); continue
    open(p, 'w').write(s.replace(a, b))
    bld = subprocess.run("cd /repo && GOFLAGS=-mod=mod GOPROXY=off GOSUMDB=off GOTOOLCHAIN=local go build ./%s/" % os.path.dirname(f), shell=True, capture_output=True, text=True)
    keep = open('/verif/evidence/%s.json' % prop).read()
    r = subprocess.run("cd /verif && ./check %s" % prop, shell=True, capture_output=True, text=True)
    open('/verif/evidence/%s.json' % prop, 'w').write(keep)
    subprocess.run("git -C /repo checkout -- " + f, shell=True)
    viol = [l for l in r.stdout.splitlines() if l.startswith("VIOLATION")]
    und = [l for l in r.stdout.splitlines() if l.startswith("UNDECIDED") or "undecided:" in l]
    summ = [l for l in r.stdout.splitlines() if l.startswith(prop + ":")]
    print("%02d %s build=%d rc=%d violations=%d undecided=%d  %s" % (k, prop, bld.returncode, r.returncode, len(viol), len(und), what))
    for l in viol + und: print("     " + l[:220])
    out.append({"property": prop, "file": f, "edit": what, "builds": bld.returncode == 0, "check_exit": r.returncode, "violations": len(viol), "undecided": len(und), "summary": summ[-1] if summ else ""})
json.dump(out, open('/verif/benign/D/results.json', 'w'), indent=1)
