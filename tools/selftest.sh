#!/bin/bash
# selftest.sh: the must-fail corpus. Applies every seeded change under /verif/seeded to /repo in turn, runs that
# property's check and expects exit 1 with a VIOLATION line; reverts the change. Run after every engine or contract
# change (takes a few minutes). /repo must have no uncommitted changes.
cd "$(dirname "$0")/.."
export VERIF_DIR=$(pwd)   # evidence, baselines and VC files of this copy of /verif, not of /verif itself
REPO=${REPO:-/repo}   # a scratch checkout of /repo's HEAD may stand in (vp run --with-repo: REPO=$VP_RUN_REPO)
if [ -n "$(git -C $REPO status --porcelain)" ]; then echo "refusing: /repo has uncommitted changes"; exit 2; fi
bad=0
for d in seeded/*; do
  id=$(basename $d); prop=${id%%_*}
  git -C $REPO apply $PWD/$d/patch.diff || { echo "$id: patch does not apply"; bad=1; continue; }
  cp evidence/$prop.json /tmp/evidence_keep_$prop.json 2>/dev/null
  out=$(./check $prop --repo $REPO 2>&1); rc=$?
  cp /tmp/evidence_keep_$prop.json evidence/$prop.json 2>/dev/null
  git -C $REPO apply -R $PWD/$d/patch.diff
  if [ $rc -eq 1 ] && echo "$out" | grep -q "^VIOLATION property=$prop"; then echo "$id: caught ($(echo "$out" | grep -c '^VIOLATION') violation lines)"; else echo "$id: NOT CAUGHT (rc=$rc)"; bad=1; fi
done
# and the unchanged tree must be quiet
./tools/runall.sh --repo $REPO > /tmp/selftest_runall.log 2>&1 || { echo "unchanged tree not clean, see /tmp/selftest_runall.log"; bad=1; }
exit $bad
