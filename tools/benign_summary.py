#!/usr/bin/env python3
"""benign_summary.py <log>...: turns the logs of tools/try_benign.sh into /verif/benign/results.json
(one record per behaviour-preserving patch: which checks ran, their exit codes, violation and undecided counts)."""
import json, os, re, sys
V = os.path.dirname(os.path.dirname(os.path.abspath(__file__)))
out = []
for log in sys.argv[1:]:
    m = re.search(r'_([ABC])\.log$', log)
    st = m.group(1) if m else '?'
    idx = {}
    ip = f"{V}/benign/{st}/index.json"
    if os.path.exists(ip):
        idx = {e['patch']: e for e in json.load(open(ip))}
    pend = []
    for line in open(log):
        line = line.rstrip('\n')
        if line.strip().startswith('VIOLATION'):
            pend.append(line.strip()); continue
        m = re.match(r'^(\S+\.diff):\s*(.*)$', line)
        if not m:
            continue
        patch, rest = m.group(1), m.group(2)
        rec = {'set': st, 'patch': patch, 'kind': idx.get(patch, {}).get('kind', ''), 'function': idx.get(patch, {}).get('function', ''), 'checks': {}, 'violation_lines': pend}
        pend = []
        if rest.strip() == 'does not apply':
            rec['applies'] = False
        else:
            rec['applies'] = True
            for c in rest.split():
                cm = re.match(r'(C\d+):rc=(\d+),viol=(\d+),undec=(\d+)', c)
                if cm:
                    rec['checks'][cm.group(1)] = {'exit': int(cm.group(2)), 'violations': int(cm.group(3)), 'undecided': int(cm.group(4))}
        out.append(rec)
json.dump(out, open(f"{V}/benign/results.json", 'w'), indent=1)
n = sum(1 for r in out if r['applies'])
runs = sum(len(r['checks']) for r in out)
al = [r for r in out if any(c['violations'] or c['exit'] == 1 for c in r['checks'].values())]
print(f"{len(out)} patches, {n} applied, {runs} check runs, {len(al)} with an alarm")
