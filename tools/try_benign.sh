#!/bin/bash
# try_benign.sh <dir with *.diff>: applies each behaviour-preserving patch to /repo in turn, runs every check whose
# packages contain a touched directory, and reports any VIOLATION (a false alarm) - /repo must be clean
cd "$(dirname "$0")/.."
REPO=${REPO:-/repo}
export VERIF_DIR=$(pwd)
if [ -n "$(git -C $REPO status --porcelain)" ]; then echo "refusing: /repo has uncommitted changes"; exit 2; fi
for P in "$1"/*.diff; do
  git -C $REPO apply "$P" 2>/dev/null || { echo "$(basename $P): does not apply"; continue; }
  dirs=$(git -C $REPO diff --name-only | xargs -n1 dirname | sort -u)
  props=$(python3 - "$dirs" <<'PY'
import json,sys
dirs=sys.argv[1].split()
out=[]
for p in json.load(open('/verif/props.json')):
    if any(('./'+d) in p['packages'] for d in dirs): out.append(p['id'])
print(' '.join(out))
PY
)
  res=""
  for id in $props; do
    cp evidence/$id.json /tmp/evidence_keep_$id.json 2>/dev/null
    out=$(./check $id --repo $REPO 2>&1); rc=$?
    cp /tmp/evidence_keep_$id.json evidence/$id.json 2>/dev/null
    v=$(echo "$out" | grep -c "^VIOLATION")
    u=$(echo "$out" | grep -c "undecided:\|^UNDECIDED")
    res="$res $id:rc=$rc,viol=$v,undec=$u"
    if [ $rc -ne 0 ]; then echo "$out" | grep "^VIOLATION" | cut -c1-300 | sed "s|^|    |"; fi
  done
  git -C $REPO apply -R "$P"
  echo "$(basename $P): $res"
done
