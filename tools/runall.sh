#!/bin/bash
# runs every claimed check (quick tier) and prints one line per property; non-zero exit if any is not clean
cd "$(dirname "$0")/.."
ids=$(python3 -c "import json;print(' '.join(p['id'] for p in json.load(open('props.json'))))")
fail=0
for p in $ids; do
  out=$(./check $p "$@" 2>&1); rc=$?
  line=$(echo "$out" | grep "^$p:" | tail -1)
  echo "rc=$rc $line"
  if [ $rc -ne 0 ] || echo "$out" | grep -q "undecided:\|MISSING\|CONTRACT-ERROR\|CONTRACT-STALE\|VACUOUS"; then fail=1; echo "$out" | grep "undecided:\|MISSING\|CONTRACT-ERROR\|CONTRACT-STALE\|VACUOUS\|VIOLATION" | head -5; fi
done
exit $fail
