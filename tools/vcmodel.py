#!/usr/bin/env python3
"""debug helper: vcmodel.py <vc.smt2> [term ...] - runs z3-new on a VC and prints the values (and definitions) of the
named $t terms / constants; without terms, prints the negated goal with one level of definitions expanded."""
import sys,subprocess,re
s=open(sys.argv[1]).read()
terms=sys.argv[2:]
defs=dict(re.findall(r'\(define-fun (\S+) \(\) \S+ (.*)\)\n',s))
goal=[l for l in s.split('\n') if l.startswith('(assert (not')][-1]
if not terms:
    print(goal[:3000])
    for t in sorted(set(re.findall(r'\$t\d+',goal)),key=lambda x:int(x[2:])):
        print(t,'=',defs.get(t,'?')[:300])
    sys.exit(0)
i=s.index('(get-value') if '(get-value' in s else len(s)
q=s[:i]+'(get-value ('+' '.join(terms)+'))\n'
open('/tmp/q.smt2','w').write(q)
print(subprocess.run(['z3-new','-T:30','/tmp/q.smt2'],capture_output=True,text=True).stdout[:6000])
for t in terms:
    if t in defs: print(t,'=',defs[t][:500])
