#!/usr/bin/env python3
"""One source for what each claimed check establishes: writes level_text / level_note / not_reached into
props.json (hence MANIFEST.json) and the 'As built' paragraphs into DESIGN.md (between markers)."""
import json, os, re

V = os.path.dirname(os.path.dirname(os.path.abspath(__file__)))

# id -> (proved: what the discharged obligations say, note: scope / what is trusted or left out)
AB = {
"C03": ("RelayPayment reaches AddEpochPayment (the point where a relay is accepted) only when IsUniqueEpochSessionExists was just false for exactly (epochStart, relay.Provider, project.Index, relay.SpecId, relay.SessionId) and epochStart is not before the earliest epoch in memory; AddEpochPayment marks exactly that key as paid; both key helpers build the key from exactly the five components; cleaning up a dropped epoch deletes only records reached through an iterator over exactly that epoch's key prefix. CuSum is not part of the key.",
        "Modular over the KV store: the unique-session store is a ghost function of the key (IsUniqueEpochSessionExists is a 'function' of its arguments and the store version). Injectivity of UniqueEpochSessionKey's string encoding and RemoveOldEpochPayments are not under contract; transaction atomicity (a failed tx reverts the marker) is cosmos-sdk behaviour."),
"C04": ("EnforceClientCUsUsageInEpoch returns at most the signed relay CU and keeps the epoch total within the allowance (both limit branches, uint64 wrap modelled); AddEpochPayment's running total includes this relay (no wrap: saturating add, fixed); lavaslices.Min returns a minimum; RelayPayment credits at most rewardedCU after QoS and rewardedCU <= relay.CuSum; ComputeQoS accepts only three scores in [0,1] and returns a score in [0,1].",
        "The allowance (policy, downtime factor) comes from keeper calls with trusted frames; The cube root inside ComputeQoS is a trusted range specification (the root of a value in [0,1] lies in [0,1])."),
"C05": ("At the point of no return (AddEpochPayment) every relay in RelayPayment satisfies: provider address equals the sender, relay.LavaChainId equals the chain id, 0 <= epoch <= height, the client is the recovered signer or - after a passed checkBadge - the badge signer, the badge is for this chain/epoch/user, the project found for that client at that epoch is enabled, the epoch start is still in memory; CU is charged only with spec found and enabled and pairing valid; ValidatePairingForClient reads, computes and caches the pairing list for the relay's own project index, chain and epoch (an epoch start).",
        "Signature recovery and GetProjectData are trusted callee contracts; ValidatePairingForClient is verified only as far as 'the list is read, computed and cached for this project, chain and epoch' (the pairing computation itself is C02, not claimed). 'Rejected without changing anything' is not proved as a frame: RelayPayment writes the store only through the calls listed, but continue-paths after AddEpochPayment rely on tx revert."),
"C08": ("CalcRewards splits a reward into provider and delegators parts that add up exactly, are non-negative, give the provider its own stake share plus commission on the rest (whole reward at 100% commission); CalcDelegatorReward is the credit share rounded down and never exceeds the pool; updateDelegatorsReward's leftover is the pool minus all shares, within [0, pool]; RewardProvidersAndDelegators splits exactly the reward minus the contributors' cut, hands the delegators' part to updateDelegatorsReward, and pays the provider its part plus the leftover, the three parts adding up to the reward. Division by zero and negative Coins.Sub are excluded (safety obligations).",
        "Coins/Int arithmetic uses the library model of cosmossdk.io/math (mathematical integers, truncated division); delegation credits come from C23."),
"C11": ("RewardAndResetCuTracker pays each provider credit(capped at LIMIT_TOKEN_PER_CU per CU) * trackedCU / totalCU rounded down, resets the tracked CU before paying, pays in total at most the capped credit, and returns the whole credit when nothing was tracked; CalcTotalMonthlyReward is the proportional share rounded down.",
        "GetSubTrackedCuInfo's totals are a ghost prefix sum assumed consistent with the per-provider entries (site assumption); validators/community participation inside RewardProvidersAndDelegators is C08/C21."),
"C12": ("One monthly expiry lowers the remaining months by exactly one, resets the monthly CU to the plan total, removes the subscription only at zero with neither advance purchase nor auto-renewal, activates an advance purchase or renews only at zero; ChargeComputeUnitsToSubscription saturates at zero and never exceeds the total; a purchase adds the months bought to the months left (zero for a new subscription and after an upgrade), stores the months bought, and charges price * months with the annual discount judged on the months bought (>= 12) and rounded down; an advance purchase is priced on the plan version in force at the next epoch, charges the price or the difference to the purchase it replaces, and records the months bought on the latest version.",
        "The fixation store and timer store are trusted frames ('only the entry handed in is written'); values found in the store are linked by ghost functions (site assumptions); the timer that triggers advanceMonth (C15) is not under contract."),
"C13": ("Over a ghost reference count per plan version: advanceMonth only ever lowers the count of the version the subscription held at entry, and by at most one; RemoveExpiredSubscription releases at most the named version once; a successful renewal moves the one reference from the old to the new version and a failed one releases the held version (fixed); a purchase (CreateSubscription) never releases a reference.",
        "PlansKeeper.GetPlan/PutPlan are trusted ghost specifications of the reference counter; the fixation store's own deletion rule (C14) is not under contract. Advance-purchase activation leaks the old version's reference (never released) - a leak, not an availability violation, noted."),
"C16": ("GetEpochStartForBlock returns a start on the fixation grid, not after the block, with the block inside that epoch; IsEpochStart iff offset zero; GetNextEpoch is strictly later; GetPreviousEpochStartForBlock returns what the grid gives for the block before the target epoch start (strictly earlier than the block); UpdateEarliestEpochstart only moves the earliest epoch forward and drops an epoch only when it is older than the blocks-to-save window in force at that epoch (loop invariant).",
        "Fixated parameters come from the fixation store through a trusted lookup contract (fixation block <= block); 'epoch starts are exactly where epoch-start processing ran' is not under contract."),
"C18": ("checkBadge accepts only if relay CU plus the used CU found fits the allocation (no uint64 wrap), only for the badge's own user, epoch and chain, and a new usage record gets an expiry in the future, computed from the blocks-to-save window in force at the badge's own epoch; handleBadgeCu stores exactly found + relay CU, within the allocation; RelayPayment calls them with the preconditions they need.",
        "The used-CU record found in the store is a ghost value; per-transaction only (several relays of one transaction using the same badge are covered because the record is re-read per relay)."),
"C19": ("A provider is punished only with complaints > 4 * serviced CU (wrap modelled), where serviced CU is accumulated over exactly the serviced-CU window and complaints over exactly the complaints window (step clauses), only while the per-chain count of non-frozen providers (defined by per-entry step clauses) minus the providers already jailed in this call exceeds the smallest max-providers-to-pair of all plans; the jailed entry is the complained provider on the counted chain; the jail counter resets only after 24h, the third jail within a day freezes for a day, a soft jail lasts an hour, and the punished complaints are deleted.",
        "Stake-history length (minHistoryBlock) and GetAllProviderEpochComplainerCuStore are trusted/pure; time model over mathematical seconds within a stated range."),
"C20": ("Commit only in the commit phase by a listed voter once, recording the commitment; reveal only in the reveal phase after the voter's own commit, with a hash matching the commitment and a valid choice; other votes untouched; phase transitions only at an epoch start after the deadline; the winner holds more than half of the counted stake and is the largest option; each option counts only its own votes, and exactly the staked voters without one of the three choices (no vote, or committed but not revealed) become non-voters (step clauses).",
        "Stake of a voter comes from GetStakeEntry (assumed non-negative); reward/slash amounts after the outcome are not under contract."),
"C21": ("isEndOfMonth is true exactly when the next refill is less than a day away (or, with no timer, never); a refill burns floor(rate * balance) of the distribution pool (the configured LeftoverBurnRate for the validators' pool, everything for the providers' pool) and then moves allocation / months-left from the allocation pool into it, both pools with the same months-left, and the leftover pool joins the validators' distribution pool only after both burn steps (ghost counter of burns); the validators' block reward is pool * factor / blocks truncated with factor <= 1 (BondedTargetFactor proved in [0, 1 + 1e-18]) and at least two blocks to go, so it never exceeds the pool; provider bonus rewards are paid from the providers' distribution pool and their running total - the exact sum of the rewards paid - never exceeds the balance read at the start.",
        "Pool balances come from the bank through TotalPoolTokens (a trusted function of the store); parameter ranges (LowFactor, bonded targets in [0,1], min < max) are stated domain assumptions; SpecEmissionParts and the base pay records are trusted to be non-negative."),
"C23": ("CalculateCredit/CalculateMonthlyCredit return a credit in [0, max(amount, stored credit)], equal to the amount after 30 unchanged days; SetDelegation keeps CreditTimestamp <= Timestamp and the stored credit within the previous amounts; lemma: for a delegation without credit history, a later evaluation time never lowers the monthly credit.",
        "'Largest amount held during the last 30 days' is encoded as max(current amount, stored credit), the two quantities the code keeps; time arithmetic over a stated timestamp range."),
"C24": ("setReputationPairingScoreByBenchmark stores a score in [min, max] equal to the scaled benchmark ratio; lemma: the scaling is order preserving in the QoS score; calcDecayFactor is in [0,1]; ApplyTimeDecayAndUpdateScore returns a valid reputation or an error and never fails on valid input. A QoS report that passes Validate has latency, sync >= 0 and availability in (0,1] (fixed: above one was accepted), so ComputeReputation's score is not negative; QosScore.truncate returns a value between the report and the current score; QosScore.Update with a non-negative score and weight keeps the score valid; the relay-payment path hands UpdateReputationEpochQosScore only such scores and weights, and what it stores is valid.",
        "LegacyDec is modelled as integers scaled by 10^18 with the library's rounding; ApproxSqrt/ApproxRoot are trusted sign/range specifications; stored reputations are assumed valid when read (every SetReputation under contract stores a valid one); the benchmark selection loop is not under contract."),
"C25": ("RelaySession.DataToSign signs the text form of every field except Sig and Badge and leaves the session unchanged; RelayExchange.DataToSign joins exactly reply data, request data with the salt cleared, and the wire form of every reply metadata entry in order, and modifies neither request nor reply; VerifyRelayReply writes nothing and hands RecoverPubKey the exchange made of exactly the request and reply it was given.",
        "Protobuf String()/Marshal() are trusted to be functions of the message value (shallow); secp256k1 recovery and hash collision resistance are cryptographic assumptions."),
"C26": ("GetContentHashData joins exactly the ten parts (every metadata entry as name then value in order, extensions, addon, api interface, connection type, url, data, request block, seen block as 8-byte encodings, salt last) and leaves the request unchanged.",
        "Unambiguity of the concatenation (no separators between variable-length parts) is NOT proved - see 'Not reached'; sha256 collision resistance assumed."),
"C27": ("Every successful compare-and-swap on the shared used-CU counter adds exactly this relay's CU and stays within maxCu * (virtualEpoch + 1) (overflow-safe, fixed); failure rolls the session back in full (and gives back exactly the failed relay's CU on the project counter); a reward-server update raises the session's CU sum to the reported value and moves the project's used CU by exactly that raise; PrepareSessionForUsage sets the cumulative CU to what the consumer signed or keeps it, and changes nothing on error.",
        "Thread-modular: the shared counter may change between atomic operations ('shared' component); lock discipline and relay-number replay protection across goroutines are not under contract."),
"C28": ("addUsedComputeUnits reserves exactly the CU asked or rejects without change, never above maxCu * (virtualEpoch + 1); decrease releases exactly and never goes below zero; a failed relay gives back exactly its reservation (OnSessionFailure); getValidProviderAddresses reports 'no provider left' before asking the optimizer only when every valid (unblocked) provider is in the relay's ignored set.",
        "Under the session lock (sequential kernel); 'a session is held by one relay at a time' and relay-number monotonicity under concurrency are not under contract."),
"C29": ("saveProofInMemory keeps, per (epoch, consumer key, session), the proof with the highest CU among the stored one and the new one, stores the first proof as is, and leaves other sessions alone; proofs are claimed only for epochs no longer active and still in chain memory; on restart every snapshotted epoch still in memory is restored and only older ones are dropped; dropping an epoch, and dropping a claimed session, drop exactly their key space (both fixed); failed claims are retried only while their epoch is in chain memory.",
        "Under the server lock; retry counting, snapshot timing and badger persistence are not under contract."),
"C31": ("Lemmas over the real CompareRequestedBlockInBatch for all block values >= 0 or tags -1..-6: the two summaries are combined independently, each combiner is commutative, associative and closed, numeric members are covered, and a member that needs archive on its own makes the batch need it (outside the recorded class). ParseMsg seeds both summaries with the first member, folds the others with the combiner, sums compute units, and never hands the container an earliest summary that would be read as 'unset'; the archive rule those lemmas speak about is the contract of the real isPassingRule (verified, see C32).",
        "Known finding (open): a member without a block (NOT_APPLICABLE) overrides a numeric earliest block. Only the JSON-RPC parser's batch loop is under contract (not tendermintRPC's)."),
"C32": ("isPassingRule marks a request iff it asks for the earliest block, or a numeric block with the latest block unknown or more than the rule distance behind it (mathematical integers: no wrap for young chains), never for latest / no block, and writes nothing; ExtensionParser.ExtensionParsing calls SetExtension only with a configured archive extension and only when the rule passes, and every configured archive extension of the add-on whose rule passes ends up marked (ghost set of marked extensions, invariant over the visited keys of the map iteration); ParseMsg adds the archive extension for an eth_call exactly when its numeric block is more than 126 behind (or the latest block is unknown).",
        "SetExtension itself (de-duplication by name, CU multiplier), the explicit extension override and the spec configuration are not under contract; only the JSON-RPC parser's eth_call rule is."),
"C34": ("Policy.Decide returns Stop or Retry; Stop at the attempt maximum, for batches with retry disabled, for cross-validation and stateful requests, on non-retryable errors; Retry only when allowed; OnSendRelayResult never reports success on error, counts failures, stops after the allowed send failures, resets on success.",
        "The pure decision kernel only; the state machine's goroutines, ticker and channels (termination, 'exactly one final instruction') are outside the subset."),
"C36": ("getRelayInner returns a value only without error, and serves a stored non-finalized entry only when its stored block hash is empty or byte-equal to the requested one; HashCacheRequest hashes the request with exactly the volatile fields cleared plus the chain id and leaves the request unchanged (including the elements of its slices); ToCacheReply returns the stored bytes and seen block, decompressing only entries flagged compressed.",
        "The ristretto cache and protobuf Marshal are trusted library specifications; expiry and finalization promotion are not under contract."),
"C39": ("verifyRelayRequestMetaData accepts only a request naming this provider, spec and lava chain id with a content hash equal to the hash of its data; verifyRelaySession reaches the session lookup only with a valid epoch, a passed metadata check and the address recovered from the request's own signature; a new consumer is registered only after the chain confirmed pairing for this consumer, provider, epoch and spec; a request rejected after its session was obtained gives the session back, and the session's failure path returns exactly the failed relay's CU.",
        "The provider session manager, state tracker and hashing are trusted callee contracts; serving (TryRelayWithWrapper), proof sending and CU rollback on later failures are C27 / not under contract."),
"C42": ("Each provider's IPRPC share is fund * CU / totalCU rounded down (fund after participation), the amount used never exceeds the fund, a spec nobody served rolls over untaxed, and the remainder of every served spec is added to the leftovers that go to the community pool; countIprpcCu adds a provider's served CU to its spec's total and leaves no record for zero CU.",
        "The CU record's total is a ghost prefix sum assumed consistent with its entries; ContributeToValidatorsAndCommunityPool and the bank keeper are trusted frames."),
}

NOT_REACHED = {
"C26": "injectivity of the concatenation: parts are joined without separators, so two different field tuples with the same concatenation are not excluded by these obligations",

"C34": "goroutine / channel / ticker behaviour of the state machine",
"C27": "interleavings beyond the atomic counter; relay number replay protection",
"C28": "session exclusivity and relay numbers under concurrency",
}

def main():
    pp = os.path.join(V, "props.json")
    props = json.load(open(pp))
    for p in props:
        if p["id"] in AB:
            proved, note = AB[p["id"]]
            p["level_text"] = "Deductive proof, for all inputs, of the listed contracts on the real functions (callee contracts assumed where marked trusted): " + proved
            p["level_note"] = note
            p["not_reached"] = NOT_REACHED.get(p["id"], "")
    json.dump(props, open(pp, "w"), indent=1)
    dp = os.path.join(V, "DESIGN.md")
    s = open(dp).read()
    # remove previous as-built paragraphs
    s = re.sub(r"\n<!-- asbuilt:(C\d\d) -->.*?<!-- /asbuilt -->\n", "\n", s, flags=re.S)
    claimed = {p["id"] for p in props}
    heads = list(re.finditer(r"^### (C\d\d) .*$", s, flags=re.M))
    out = []
    last = 0
    for i, h in enumerate(heads):
        end = heads[i + 1].start() if i + 1 < len(heads) else s.index("\n## 7.")
        out.append(s[last:end].rstrip("\n"))
        pid = h.group(1)
        if pid in AB and pid in claimed:
            proved, note = AB[pid]
            out.append("\n\n<!-- asbuilt:%s -->\n**As built (claimed).** %s\n*Scope / trusted:* %s\n<!-- /asbuilt -->\n\n" % (pid, proved, note))
        elif pid not in claimed:
            out.append("\n\n<!-- asbuilt:%s -->\n**As built: not claimed.** No check is registered for this property (see section 7 / MANIFEST `not_applicable` for the reason); the design above is what would be built.\n<!-- /asbuilt -->\n\n" % pid)
        else:
            out.append("\n\n")
        last = end
    out.append(s[last:])
    open(dp, "w").write("".join(out))
    print("as-built notes:", len(AB))

if __name__ == "__main__":
    main()
