#!/bin/bash
# detect_seeded.sh <ID> [check-id]: applies the seeded patch of <ID> to /repo, runs the check, reverts exactly that patch
ID=$1; CK=${2:-$1}
SUF=${SEEDSUFFIX:-}; P=${SEEDROOT:-/tmp/wt}/$ID.out/patch.diff; [ -f $P ] || P=/verif/seeded/$ID$SUF/patch.diff
if [ -n "$(git -C /repo status --porcelain)" ]; then echo "refusing: /repo has uncommitted changes"; exit 2; fi
git -C /repo apply $P || exit 2
cp /verif/evidence/$CK.json /tmp/evidence_keep_$CK.json 2>/dev/null
cd /verif && ./check $CK > /tmp/det_$ID$SUF.log 2>&1; rc=$?
git -C /repo apply -R $P
# the evidence file belongs to the unchanged tree: put back the one written before the change was applied
cp /tmp/evidence_keep_$CK.json /verif/evidence/$CK.json 2>/dev/null
echo "$ID (check $CK) rc=$rc"; grep "VIOLATION\|^$CK:" /tmp/det_$ID$SUF.log | cut -c1-330
