#!/bin/bash
# usage: confirm_seeded.sh <ID> <worktree> <outdir> <demo pkg dir> <packages to test...>
# confirms a seeded change: builds, existing tests pass with it, demo fails with it and passes without it
set -u
ID=$1; WT=$2; OUT=$3; PKG=$4; shift 4
export GOFLAGS=-mod=mod GOPROXY=off GOSUMDB=off GOTOOLCHAIN=local
cd $WT || exit 2
git checkout -q -- . ; rm -f $PKG/zz_seed_demo_test.go
git apply $OUT/patch.diff || { echo "APPLY-FAILED"; exit 1; }
go build ./... > /tmp/confirm_$ID${SEEDSUFFIX:-}.build 2>&1 || { echo "BUILD-FAILED"; tail -5 /tmp/confirm_$ID${SEEDSUFFIX:-}.build; git checkout -q -- .; exit 1; }
echo "build ok"
go test -vet=off -count=1 -timeout 25m "$@" > /tmp/confirm_$ID${SEEDSUFFIX:-}.tests 2>&1; rc=$?
echo "existing tests with change: rc=$rc"; grep -v "^ok\|no test files" /tmp/confirm_$ID${SEEDSUFFIX:-}.tests | head -5
cp $OUT/demo_test.go $PKG/zz_seed_demo_test.go
go test -vet=off -count=1 -timeout 25m -run 'Demo|Seed|TestC[0-9]+' ./$PKG/ > /tmp/confirm_$ID${SEEDSUFFIX:-}.demo_with 2>&1; rcw=$?
echo "demo WITH change: rc=$rcw (expected non-zero)"
git checkout -q -- .
go test -vet=off -count=1 -timeout 25m -run 'Demo|Seed|TestC[0-9]+' ./$PKG/ > /tmp/confirm_$ID${SEEDSUFFIX:-}.demo_without 2>&1; rco=$?
echo "demo WITHOUT change: rc=$rco (expected 0)"
rm -f $PKG/zz_seed_demo_test.go
if [ $rc -eq 0 ] && [ $rcw -ne 0 ] && [ $rco -eq 0 ]; then echo "CONFIRMED $ID"; else echo "NOT-CONFIRMED $ID"; fi
