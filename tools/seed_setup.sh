#!/bin/bash
# seed_setup.sh <ID>...: a scratch worktree per property under $WT (default /tmp/wt), without the verification
# contract files, plus the property text, for a sub-agent that is to seed a property-breaking change
set -e
export WT=${WT:-/tmp/wt}
mkdir -p $WT
for ID in "$@"; do
  [ -d $WT/$ID ] || git -C /repo worktree add -q --detach $WT/$ID HEAD
  (cd $WT/$ID && if git ls-files | grep -q zz_contracts_verif.go; then git rm -q $(git ls-files | grep zz_contracts_verif.go) && git -c user.name=scratch -c user.email=s@x commit -qm "scratch: no contract files"; fi)
  python3 - "$ID" <<'PY'
import json,sys,os
for l in open('/verif/properties.jsonl'):
    d=json.loads(l)
    if d['id']==sys.argv[1]:
        open('%s/%s.prop.txt'%(os.environ['WT'],d['id']),'w').write(d['title']+': '+d['statement']+'\nFiles: '+', '.join(d['anchors']['files'])+'\n')
PY
done
