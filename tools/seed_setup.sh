#!/bin/bash
# seed_setup.sh <ID>...: a scratch worktree per property under /tmp/wt, without the verification contract files,
# plus the property text, for a sub-agent that is to seed a property-breaking change
set -e
mkdir -p /tmp/wt
for ID in "$@"; do
  git -C /repo worktree add -q --detach /tmp/wt/$ID HEAD
  (cd /tmp/wt/$ID && git rm -q $(git ls-files | grep zz_contracts_verif.go) && git -c user.name=scratch -c user.email=s@x commit -qm "scratch: no contract files")
  python3 - "$ID" <<'PY'
import json,sys
for l in open('/verif/properties.jsonl'):
    d=json.loads(l)
    if d['id']==sys.argv[1]:
        open('/tmp/wt/%s.prop.txt'%d['id'],'w').write(d['title']+': '+d['statement']+'\nFiles: '+', '.join(d['anchors']['files'])+'\n')
PY
done
