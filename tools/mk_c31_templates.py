#!/usr/bin/env python3
"""Writes the replay templates of the C31 lemmas: each evaluates the lemma on the real CompareRequestedBlockInBatch
with the values of the solver's model and prints REPRODUCED when the lemma's conclusion is false for them."""
import os
V = os.path.dirname(os.path.dirname(os.path.abspath(__file__)))
HEAD = '''// pkgdir: protocol/chainlib
package chainlib

import (
	"fmt"
	"testing"
)

func govcF1(x, y int64) int64 { r, _ := CompareRequestedBlockInBatch(x, 0, y); return r }
func govcF2(x, y int64) int64 { _, r := CompareRequestedBlockInBatch(0, x, y); return r }
func govcValid(x int64) bool  { return x >= 0 || (x <= -1 && x >= -6) }

func TestGovcReplay(t *testing.T) {
%s
	fmt.Printf("%s: %s\\n", %s)
	if pre && !(%s) {
		fmt.Println("REPRODUCED")
	}
}
'''
def v(n, d="0"): return 'int64({{M "l.%s" "%s"}})' % (n, d)
L = {
 "latest_commutative": (["a","b"], "govcValid(a) && govcValid(b)", "govcF1(a, b) == govcF1(b, a)"),
 "latest_associative": (["a","b","c"], "govcValid(a) && govcValid(b) && govcValid(c)", "govcF1(govcF1(a, b), c) == govcF1(a, govcF1(b, c))"),
 "earliest_commutative": (["a","b"], "govcValid(a) && govcValid(b)", "govcF2(a, b) == govcF2(b, a)"),
 "earliest_associative": (["a","b","c"], "govcValid(a) && govcValid(b) && govcValid(c)", "govcF2(govcF2(a, b), c) == govcF2(a, govcF2(b, c))"),
 "combiner_closed": (["a","b"], "govcValid(a) && govcValid(b)", "(govcF1(a, b) == a || govcF1(a, b) == b) && (govcF2(a, b) == a || govcF2(a, b) == b)"),
 "numeric_members_covered": (["a","b"], "a >= 0 && b >= 0", "govcF1(a, b) >= a && govcF1(a, b) >= b && govcF2(a, b) <= a && govcF2(a, b) <= b"),
 "numeric_earliest_never_raised": (["e","p"], "govcValid(e) && p >= 0", "!(govcF2(e, p) >= 0) || govcF2(e, p) <= p"),
 "summaries_combined_independently": (["l","e","p"], "govcValid(l) && govcValid(e) && govcValid(p)", "func() bool { x, y := CompareRequestedBlockInBatch(l, e, p); return x == govcF1(l, p) && y == govcF2(e, p) }()"),
}
for name, (vs, pre, concl) in L.items():
    body = "\n".join("\t%s := %s" % (x, v(x)) for x in vs) + "\n\tpre := " + pre
    fmtargs = '"' + name + '", fmt.Sprint(' + ", ".join(vs) + ')'
    src = HEAD % (body, "%s", "%s", fmtargs, concl)
    fn = "protocol_chainlib.lemma_%s.tmpl" % name
    open(os.path.join(V, "replay", fn), "w").write(src)
    print("wrote", fn)
