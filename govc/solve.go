package main

// SMT portfolio: z3-new, z3 4.8.12, cvc5 raced per obligation.

import (
	"bytes"
	"context"
	"fmt"
	"os"
	"os/exec"
	"path/filepath"
	"strings"
	"sync"
	"time"
)

type SolveResult struct {
	Status   string // unsat | sat | unknown | timeout | error
	Solver   string
	Seconds  float64
	Model    map[string]string
	Values   []string // get-value answers in request order
	Output   string
	All      map[string]string // per-solver status (thorough)
	File     string
}

type solverSpec struct {
	name string
	cmd  func(file string, timeoutS int) []string
	cvc5 bool
}

var solvers = []solverSpec{
	{name: "z3-new-5.1.0", cmd: func(f string, t int) []string { return []string{"z3-new", fmt.Sprintf("-T:%d", t), f} }},
	// same solver, the other linear-arithmetic core: decides some quantified/nonlinear goals the default one does not
	{name: "z3-new-5.1.0(arith.solver=2)", cmd: func(f string, t int) []string {
		return []string{"z3-new", fmt.Sprintf("-T:%d", t), "smt.arith.solver=2", f}
	}},
	{name: "z3-4.8.12", cmd: func(f string, t int) []string { return []string{"/usr/bin/z3", fmt.Sprintf("-T:%d", t), f} }},
	{name: "cvc5-1.0", cmd: func(f string, t int) []string {
		return []string{"cvc5", "--lang=smt2", fmt.Sprintf("--tlimit=%d", t*1000), "--nl-ext=full", f}
	}, cvc5: true},
}

func runSolver(ctx context.Context, s solverSpec, file string, timeoutS int) (status, out string, secs float64) {
	args := s.cmd(file, timeoutS)
	cctx, cancel := context.WithTimeout(ctx, time.Duration(timeoutS+2)*time.Second)
	defer cancel()
	cmd := exec.CommandContext(cctx, args[0], args[1:]...)
	var buf bytes.Buffer
	cmd.Stdout = &buf
	cmd.Stderr = &buf
	t0 := time.Now()
	_ = cmd.Run()
	secs = time.Since(t0).Seconds()
	out = buf.String()
	first := strings.TrimSpace(strings.SplitN(strings.TrimSpace(out), "\n", 2)[0])
	switch first {
	case "sat", "unsat", "unknown":
		status = first
	case "timeout":
		status = "timeout"
	default:
		if cctx.Err() != nil || strings.Contains(out, "timeout") || strings.Contains(out, "interrupted") {
			status = "timeout"
		} else {
			status = "error"
		}
	}
	return
}

// Solve runs the portfolio on one obligation. all=true waits for every solver and cross-checks.
// Rendered is a query already printed (rendering touches the shared term factory, so it is done
// sequentially; only the solver processes run in parallel).
type Rendered struct {
	z3, cvc5 string
	valNames []string
}

func (sc *Script) Prepare() *Rendered {
	return &Rendered{z3: sc.Render(false), cvc5: sc.Render(true), valNames: sc.valNames}
}

func Solve(sc *Rendered, dir, name string, timeoutS int, all bool) *SolveResult {
	base := filepath.Join(dir, sanitizeFile(name))
	fz := base + ".smt2"
	fc := base + ".cvc5.smt2"
	os.WriteFile(fz, []byte(sc.z3), 0o644)
	os.WriteFile(fc, []byte(sc.cvc5), 0o644)
	res := &SolveResult{Status: "unknown", All: map[string]string{}, File: fz}
	ctx, cancel := context.WithCancel(context.Background())
	defer cancel()
	type ans struct {
		s           solverSpec
		status, out string
		secs        float64
	}
	ch := make(chan ans, len(solvers))
	start := func(s solverSpec) {
		go func() {
			file := fz
			if s.cvc5 {
				file = fc
			}
			st, out, secs := runSolver(ctx, s, file, timeoutS)
			ch <- ans{s, st, out, secs}
		}()
	}
	t0 := time.Now()
	pending := 0
	// z3-new gets a head start; the others join if it is not immediate
	start(solvers[0])
	pending++
	started := 1
	timer := time.NewTimer(1500 * time.Millisecond)
	if all {
		timer.Reset(0)
	}
	var definite *ans
	for pending > 0 {
		select {
		case <-timer.C:
			for started < len(solvers) {
				start(solvers[started])
				started++
				pending++
			}
		case a := <-ch:
			pending--
			res.All[a.s.name] = a.status
			if a.status == "sat" || a.status == "unsat" {
				if definite == nil {
					aa := a
					definite = &aa
					res.Seconds = time.Since(t0).Seconds()
				} else if definite.status != a.status {
					res.Status = "error"
					res.Output = fmt.Sprintf("solver disagreement: %s says %s, %s says %s", definite.s.name, definite.status, a.s.name, a.status)
					return res
				}
				if !all {
					cancel()
					pending = 0
				}
			} else if started < len(solvers) && pending == 0 {
				for started < len(solvers) {
					start(solvers[started])
					started++
					pending++
				}
			}
			if a.status == "error" && res.Output == "" {
				res.Output = a.s.name + ": " + firstLines(a.out, 5)
			}
		}
	}
	if definite == nil {
		// second chance: quantified nonlinear goals are sensitive to the solver's search order (an unrelated extra
		// hypothesis can turn a 2 s proof into a timeout), so the same query is retried under other random seeds
		var retry []solverSpec
		for _, seed := range []int{1, 2, 3, 4, 5, 6} {
			seed := seed
			extra := []string{fmt.Sprintf("smt.random_seed=%d", seed), fmt.Sprintf("sat.random_seed=%d", seed)}
			name := fmt.Sprintf("z3-new-5.1.0(seed=%d)", seed)
			if seed > 4 {
				extra = append(extra, "smt.arith.solver=2")
				name = fmt.Sprintf("z3-new-5.1.0(arith.solver=2,seed=%d)", seed)
			}
			retry = append(retry, solverSpec{name: name, cmd: func(f string, t int) []string {
				return append(append([]string{"z3-new", fmt.Sprintf("-T:%d", t)}, extra...), f)
			}})
		}
		ch2 := make(chan ans, len(retry))
		for _, s := range retry {
			s := s
			go func() {
				st, out, secs := runSolver(ctx, s, fz, timeoutS)
				ch2 <- ans{s, st, out, secs}
			}()
		}
		for i := 0; i < len(retry); i++ {
			a := <-ch2
			res.All[a.s.name] = a.status
			if a.status == "sat" || a.status == "unsat" {
				aa := a
				definite = &aa
				res.Seconds = time.Since(t0).Seconds()
				cancel()
				break
			}
		}
	}
	if definite != nil {
		res.Status = definite.status
		res.Solver = definite.s.name
		if definite.status == "sat" {
			res.Model, res.Values = parseModel(definite.out)
			if len(sc.valNames) == len(res.Values) {
				res.Model = map[string]string{}
				for i, n := range sc.valNames {
					res.Model[n] = res.Values[i]
				}
			}
			res.Output = definite.out
		}
		return res
	}
	res.Seconds = time.Since(t0).Seconds()
	// unknown vs timeout
	res.Status = "unknown"
	for _, s := range res.All {
		if s == "timeout" {
			res.Status = "timeout"
		}
	}
	return res
}

func firstLines(s string, n int) string {
	ls := strings.Split(s, "\n")
	if len(ls) > n {
		ls = ls[:n]
	}
	return strings.Join(ls, " | ")
}

func sanitizeFile(s string) string {
	var sb strings.Builder
	for _, r := range s {
		switch {
		case r >= 'a' && r <= 'z', r >= 'A' && r <= 'Z', r >= '0' && r <= '9', r == '_', r == '.', r == '-', r == '#', r == '@':
			sb.WriteRune(r)
		default:
			sb.WriteByte('_')
		}
	}
	out := sb.String()
	if len(out) > 180 {
		out = out[len(out)-180:]
	}
	return out
}

// parseModel reads a (get-value ...) answer: ((expr value) (expr value) ...)
func parseModel(out string) (map[string]string, []string) {
	m := map[string]string{}
	var vals []string
	i := strings.Index(out, "\n")
	if i < 0 {
		return m, nil
	}
	s := strings.TrimSpace(out[i+1:])
	if !strings.HasPrefix(s, "(") {
		return m, nil
	}
	// tokenise s-expressions at depth 2
	depth := 0
	start := -1
	for p := 0; p < len(s); p++ {
		switch s[p] {
		case '|':
			q := strings.IndexByte(s[p+1:], '|')
			if q < 0 {
				return m, vals
			}
			p += q + 1
		case '(':
			depth++
			if depth == 2 {
				start = p
			}
		case ')':
			if depth == 2 && start >= 0 {
				pair := s[start+1 : p]
				k, v := splitPair(pair)
				m[k] = v
				vals = append(vals, v)
				start = -1
			}
			depth--
		}
	}
	return m, vals
}

func splitPair(p string) (string, string) {
	p = strings.TrimSpace(p)
	depth := 0
	for i := 0; i < len(p); i++ {
		switch p[i] {
		case '|':
			q := strings.IndexByte(p[i+1:], '|')
			if q >= 0 {
				i += q + 1
			}
		case '(':
			depth++
		case ')':
			depth--
		case ' ', '\n', '\t':
			if depth == 0 {
				return strings.TrimSpace(p[:i]), strings.TrimSpace(p[i+1:])
			}
		}
	}
	return p, ""
}

// parallel map over obligations
func forEachParallel(n, workers int, fn func(i int)) {
	var wg sync.WaitGroup
	ch := make(chan int)
	for w := 0; w < workers; w++ {
		wg.Add(1)
		go func() {
			defer wg.Done()
			for i := range ch {
				fn(i)
			}
		}()
	}
	for i := 0; i < n; i++ {
		ch <- i
	}
	close(ch)
	wg.Wait()
}
