package main

// Forward symbolic execution of go/ssa functions into verification conditions.

import (
	"fmt"
	"go/constant"
	"go/token"
	"go/types"
	"math/big"
	"sort"
	"strings"

	"golang.org/x/tools/go/ssa"
)

type State struct {
	pc       *Term
	heap     map[string]*Term
	gen      int
	frontier *Term
	world    *Term
	// components havocked before they were ever read in this state (so not yet in heap): a first read
	// after the havoc must not see the generation's initial contents
	lazy []lazyHavoc
}

type lazyHavoc struct {
	pat string // component name, or prefix ending in "." for a wildcard
	gen int
}

func (s *State) clone() *State {
	h := make(map[string]*Term, len(s.heap))
	for k, v := range s.heap {
		h[k] = v
	}
	return &State{pc: s.pc, heap: h, gen: s.gen, frontier: s.frontier, world: s.world, lazy: append([]lazyHavoc(nil), s.lazy...)}
}

// genOf: the generation a component not yet in st.heap is read at
func (s *State) genOf(name string) int {
	g := s.gen
	for _, l := range s.lazy {
		if l.gen > g && (l.pat == name || strings.HasSuffix(l.pat, ".") && strings.HasPrefix(name, l.pat)) {
			g = l.gen
		}
	}
	return g
}

type Obligation struct {
	Name    string
	Kind    string
	Fn      string
	Goal    *Term
	PC      *Term
	NAssume int // number of global assumptions visible
	Pos     string
	Clause  *Clause
	Inputs  []*Term // terms whose model values are requested
	Cover   bool    // a satisfiability (non-vacuity) query: expected sat
	Named   map[string]*Term
}

type closureInfo struct {
	fn       *ssa.Function
	bindings []*Term
}

type Exec struct {
	f        *TermFactory
	tm       *TypeMap
	W        *World
	prop     string
	assumes  []*Term
	obligs   []*Obligation
	notes    map[string]int
	compSort map[string]Sort
	genCtr   int
	closures map[*Term]*closureInfo
	callStack []*ssa.Function
	inputs   []*Term
	usedContracts map[string]bool
	inlined  map[string]bool
	havocked map[string]int
	trustedUsed map[string]bool
	curFn    string
	maxInline int
	frameCtr  int
	instSuffix string
	genFrontier  map[int]*Term   // allocation frontier when a heap generation was introduced
	baseFrontier map[*Term]*Term // per base heap array variable: everything it contains is older than this
	entryEval func(text string) (*Term, error)
}

func NewExec(W *World, prop string) *Exec {
	f := NewFactory()
	return &Exec{f: f, tm: NewTypeMap(f), W: W, prop: prop, notes: map[string]int{}, compSort: map[string]Sort{},
		genFrontier: map[int]*Term{}, baseFrontier: map[*Term]*Term{}, closures: map[*Term]*closureInfo{}, usedContracts: map[string]bool{}, inlined: map[string]bool{}, havocked: map[string]int{}, trustedUsed: map[string]bool{}, maxInline: 6}
}

func (ex *Exec) note(format string, a ...interface{}) {
	ex.notes[fmt.Sprintf(format, a...)]++
}

func (ex *Exec) assume(st *State, fact *Term) {
	if fact.IsTrue() {
		return
	}
	ex.assumes = append(ex.assumes, ex.f.Implies(st.pc, fact))
}

// ---------- heap

func (ex *Exec) comp(st *State, name string, s Sort) *Term {
	if t, ok := st.heap[name]; ok {
		if t.sort != s {
			panic(fmt.Sprintf("heap component %s: sort %s vs %s", name, t.sort, s))
		}
		return t
	}
	if old, ok := ex.compSort[name]; ok && old != s {
		panic(fmt.Sprintf("heap component %s: sort %s vs %s", name, old, s))
	}
	ex.compSort[name] = s
	g := st.genOf(name)
	t := ex.f.Var(fmt.Sprintf("%s@%d", name, g), s)
	st.heap[name] = t
	if fr, ok := ex.genFrontier[g]; ok && !strings.HasPrefix(name, "L.") && !strings.HasPrefix(name, "IT.") {
		ex.baseFrontier[t] = fr
	}
	return t
}

func (ex *Exec) setComp(st *State, name string, v *Term) {
	ex.compSort[name] = v.sort
	st.heap[name] = v
}

func (ex *Exec) havocAll(st *State, why string) {
	if debugOn {
		fmt.Printf("DEBUG havocAll: %s\n", why)
	}
	ex.genCtr++
	st.gen = ex.genCtr
	keep := map[string]*Term{}
	for k, v := range st.heap {
		if strings.HasPrefix(k, "L.") || strings.HasPrefix(k, "IT.") {
			keep[k] = v
		}
	}
	st.heap = keep
	nf := ex.f.Fresh("frontier", SInt)
	ex.assume(st, ex.f.Ge(nf, st.frontier))
	st.frontier = nf
	ex.genFrontier[st.gen] = nf
	st.world = ex.f.Fresh("world", SInt)
	ex.havocked[why]++
}

func (ex *Exec) havocComps(st *State, names []string) {
	// whoever rewrote these components may have allocated: the frontier moves, and the new contents only
	// refer to objects older than the new frontier
	nf := ex.f.Fresh("frontier", SInt)
	ex.assume(st, ex.f.Ge(nf, st.frontier))
	st.frontier = nf
	fresh := func(k string, s Sort) {
		t := ex.f.Fresh(k, s)
		st.heap[k] = t
		if !strings.HasPrefix(k, "L.") && !strings.HasPrefix(k, "IT.") {
			ex.baseFrontier[t] = nf
		}
	}
	later := func(pat string) {
		ex.genCtr++
		ex.genFrontier[ex.genCtr] = nf
		st.lazy = append(st.lazy, lazyHavoc{pat, ex.genCtr})
	}
	for _, n := range names {
		if strings.HasSuffix(n, ".*") {
			pre := strings.TrimSuffix(n, "*")
			for k, s := range ex.compSort {
				if strings.HasPrefix(k, pre) {
					fresh(k, s)
				}
			}
			later(pre) // components under the prefix that no path has touched yet
			continue
		}
		if n == "world" {
			st.world = ex.f.Fresh("world", SInt)
			continue
		}
		if s, ok := ex.compSort[n]; ok {
			fresh(n, s)
		} else if strings.HasPrefix(n, "G.") {
			if s, ok := ex.W.ghostVars[strings.TrimPrefix(n, "G.")]; ok {
				ex.compSort[n] = s
				fresh(n, s)
			}
		} else if !strings.HasPrefix(n, "*") {
			later(n)
		}
	}
}

func isInterior(p *Term) bool {
	return isLocal(p) || p.op == "app" && (strings.HasPrefix(p.name, "faddr.") || strings.HasPrefix(p.name, "iaddr."))
}

// isLocal: address of a non-escaping local variable (go/ssa Alloc with Heap == false). Such cells are
// invisible to callees, so they live outside the havocked heap.
func isLocal(p *Term) bool {
	return p.op == "var" && strings.HasPrefix(p.name, "local.")
}

func (ex *Exec) faddr(base *Term, dt, field string) *Term {
	return ex.f.App("faddr."+dt+"."+field, SInt, base)
}

func (ex *Exec) iaddr(elem Sort, base, idx *Term) *Term {
	return ex.f.App("iaddr."+sanitize(string(elem)), SInt, base, idx)
}

func splitFaddr(name string) (dt, field string) {
	rest := strings.TrimPrefix(name, "faddr.")
	i := strings.LastIndex(rest, ".")
	return rest[:i], rest[i+1:]
}

func (ex *Exec) fieldSort(dt, field string) Sort {
	d := ex.f.dts.byName[dt]
	for _, fl := range d.Fields {
		if fl.Name == field {
			return fl.Sort
		}
	}
	panic("no field " + dt + "." + field)
}

// loadSort loads a value of SMT sort s (Go type t, may be nil for interior recursion) from pointer p.
func (ex *Exec) load(st *State, p *Term, t types.Type) *Term {
	f := ex.f
	if p.op == "ite" {
		return f.Ite(p.args[0], ex.load(st, p.args[1], t), ex.load(st, p.args[2], t))
	}
	if p.op == "app" && strings.HasPrefix(p.name, "faddr.") {
		dt, field := splitFaddr(p.name)
		base := p.args[0]
		if isInterior(base) || base.op == "ite" {
			return f.Acc(dt, field, ex.load(st, base, ex.tm.dtType[dt]))
		}
		return f.Select(ex.comp(st, "H."+dt+"."+field, ArraySort(SInt, ex.fieldSort(dt, field))), base)
	}
	s := ex.tm.SortOf(t)
	if isLocal(p) {
		return ex.comp(st, "L."+p.name, s)
	}
	if p.op == "app" && strings.HasPrefix(p.name, "iaddr.") {
		base, idx := p.args[0], p.args[1]
		if isInterior(base) {
			return f.Select(ex.loadArr(st, base, s), idx)
		}
		return f.Select(f.Select(ex.comp(st, ex.eComp(t), ArraySort(SInt, ArraySort(SInt, s))), base), idx)
	}
	if dt, stt, ok := ex.tm.StructOf(t); ok {
		args := make([]*Term, stt.NumFields())
		for i := range args {
			fn := fieldName(stt, i)
			args[i] = f.Select(ex.comp(st, "H."+dt+"."+fn, ArraySort(SInt, ex.fieldSort(dt, fn))), p)
		}
		return f.Mk(dt, args...)
	}
	if s.IsArray() {
		if at, isArr := types.Unalias(t).Underlying().(*types.Array); isArr {
			return f.Select(ex.comp(st, ex.eComp(at.Elem()), ArraySort(SInt, s)), p)
		}
	}
	return f.Select(ex.comp(st, ex.pComp(t), ArraySort(SInt, s)), p)
}

// loadArr loads the whole array (Array Int elem) stored at interior pointer base.
func (ex *Exec) loadArr(st *State, base *Term, elem Sort) *Term {
	f := ex.f
	if isLocal(base) {
		return ex.comp(st, "L."+base.name, ArraySort(SInt, elem))
	}
	if base.op == "app" && strings.HasPrefix(base.name, "faddr.") {
		dt, field := splitFaddr(base.name)
		b := base.args[0]
		if isInterior(b) {
			return f.Acc(dt, field, ex.load(st, b, ex.tm.dtType[dt]))
		}
		return f.Select(ex.comp(st, "H."+dt+"."+field, ArraySort(SInt, ex.fieldSort(dt, field))), b)
	}
	// array inside array
	b, idx := base.args[0], base.args[1]
	as := ArraySort(SInt, elem)
	if isInterior(b) {
		return f.Select(ex.loadArr(st, b, as), idx)
	}
	return f.Select(f.Select(ex.comp(st, "E."+sanitize(string(as)), ArraySort(SInt, ArraySort(SInt, as))), b), idx)
}

func (ex *Exec) store(st *State, p *Term, t types.Type, v *Term) {
	f := ex.f
	if p.op == "ite" {
		c := p.args[0]
		s1 := st.clone()
		s1.pc = f.And(st.pc, c)
		ex.store(s1, p.args[1], t, v)
		s2 := st.clone()
		s2.pc = f.And(st.pc, f.Not(c))
		ex.store(s2, p.args[2], t, v)
		keys := map[string]bool{}
		for k := range s1.heap {
			keys[k] = true
		}
		for k := range s2.heap {
			keys[k] = true
		}
		for k := range keys {
			a := ex.comp(s1, k, ex.compSort[k])
			b := ex.comp(s2, k, ex.compSort[k])
			st.heap[k] = f.Ite(c, a, b)
		}
		return
	}
	if p.op == "app" && strings.HasPrefix(p.name, "faddr.") {
		dt, field := splitFaddr(p.name)
		base := p.args[0]
		if isInterior(base) || base.op == "ite" {
			bt := ex.tm.dtType[dt]
			cur := ex.load(st, base, bt)
			ex.store(st, base, bt, f.With(dt, field, cur, v))
			return
		}
		name := "H." + dt + "." + field
		arr := ex.comp(st, name, ArraySort(SInt, ex.fieldSort(dt, field)))
		ex.setComp(st, name, f.Store(arr, base, v))
		return
	}
	s := v.sort
	if isLocal(p) {
		ex.setComp(st, "L."+p.name, v)
		return
	}
	if p.op == "app" && strings.HasPrefix(p.name, "iaddr.") {
		base, idx := p.args[0], p.args[1]
		if isInterior(base) {
			arr := ex.loadArr(st, base, s)
			ex.storeArr(st, base, s, f.Store(arr, idx, v))
			return
		}
		name := ex.eComp(t)
		e := ex.comp(st, name, ArraySort(SInt, ArraySort(SInt, s)))
		ex.setComp(st, name, f.Store(e, base, f.Store(f.Select(e, base), idx, v)))
		return
	}
	if dt, stt, ok := ex.tm.StructOf(t); ok {
		for i := 0; i < stt.NumFields(); i++ {
			fn := fieldName(stt, i)
			name := "H." + dt + "." + fn
			arr := ex.comp(st, name, ArraySort(SInt, ex.fieldSort(dt, fn)))
			ex.setComp(st, name, f.Store(arr, p, f.Acc(dt, fn, v)))
		}
		return
	}
	if s.IsArray() && t != nil {
		if at, isArr := types.Unalias(t).Underlying().(*types.Array); isArr {
			name := ex.eComp(at.Elem())
			e := ex.comp(st, name, ArraySort(SInt, s))
			ex.setComp(st, name, f.Store(e, p, v))
			return
		}
	}
	name := ex.pComp(t)
	arr := ex.comp(st, name, ArraySort(SInt, s))
	ex.setComp(st, name, f.Store(arr, p, v))
}

func (ex *Exec) storeArr(st *State, base *Term, elem Sort, arr *Term) {
	f := ex.f
	if isLocal(base) {
		ex.setComp(st, "L."+base.name, arr)
		return
	}
	if base.op == "app" && strings.HasPrefix(base.name, "faddr.") {
		dt, field := splitFaddr(base.name)
		b := base.args[0]
		if isInterior(b) {
			bt := ex.tm.dtType[dt]
			cur := ex.load(st, b, bt)
			ex.store(st, b, bt, f.With(dt, field, cur, arr))
			return
		}
		name := "H." + dt + "." + field
		h := ex.comp(st, name, ArraySort(SInt, ex.fieldSort(dt, field)))
		ex.setComp(st, name, f.Store(h, b, arr))
		return
	}
	b, idx := base.args[0], base.args[1]
	as := ArraySort(SInt, elem)
	if isInterior(b) {
		outer := ex.loadArr(st, b, as)
		ex.storeArr(st, b, as, f.Store(outer, idx, arr))
		return
	}
	name := "E." + sanitize(string(as))
	e := ex.comp(st, name, ArraySort(SInt, ArraySort(SInt, as)))
	ex.setComp(st, name, f.Store(e, b, f.Store(f.Select(e, b), idx, arr)))
}

func (ex *Exec) alloc(st *State) *Term {
	r := st.frontier
	st.frontier = ex.f.Add(st.frontier, ex.f.Int(1))
	return r
}

// origContents strips every store from the array part of a select chain, giving the corresponding
// read of the underlying base array variable (nil if the chain does not end in a tracked base variable).
func (ex *Exec) origContents(t *Term) (*Term, *Term) {
	f := ex.f
	switch t.op {
	case "var":
		if fr, ok := ex.baseFrontier[t]; ok {
			return t, fr
		}
		return nil, nil
	case "store":
		return ex.origContents(t.args[0])
	case "select":
		a, fr := ex.origContents(t.args[0])
		if a == nil {
			return nil, nil
		}
		return f.Select(a, t.args[1]), fr
	}
	return nil, nil
}

// loadedRefFacts: what is known about references inside a value that was read from the heap. The heap
// as it was when a base array variable was introduced (function entry, after a havoc) only contains
// references older than the allocation frontier of that moment; in particular it cannot contain an
// object allocated later by the function itself.
func (ex *Exec) loadedRefFacts(v *Term, t types.Type, depth int) *Term {
	f := ex.f
	t = types.Unalias(t)
	if _, ok := ex.tm.special[typeFullName(t)]; ok {
		return f.True()
	}
	var facts []*Term
	var leaf func(x *Term, wrap func(*Term) *Term)
	leaf = func(x *Term, wrap func(*Term) *Term) {
		switch {
		case x.op == "ite":
			leaf(x.args[1], wrap)
			leaf(x.args[2], wrap)
		case x.op == "select":
			if o, fr := ex.origContents(x); o != nil {
				facts = append(facts, f.Lt(wrap(o), fr))
			}
		}
	}
	switch u := t.Underlying().(type) {
	case *types.Pointer, *types.Map:
		leaf(v, func(x *Term) *Term { return x })
	case *types.Slice:
		leaf(v, func(x *Term) *Term { return f.Acc("Slice", "ref", x) })
		if v.op == "mk:Slice" {
			leaf(v.args[0], func(x *Term) *Term { return x })
		}
	case *types.Struct:
		if depth <= 0 {
			break
		}
		dt, s, ok := ex.tm.StructOf(t)
		if !ok {
			break
		}
		_ = u
		for i := 0; i < s.NumFields(); i++ {
			facts = append(facts, ex.loadedRefFacts(f.Acc(dt, fieldName(s, i), v), s.Field(i).Type(), depth-1))
		}
	}
	return f.And(facts...)
}

// refsBelow: every reference reachable in one step from x is older than the allocation frontier.
func (ex *Exec) refsBelow(x *Term, t types.Type, fr *Term, depth int) *Term {
	f := ex.f
	t = types.Unalias(t)
	if _, ok := ex.tm.special[typeFullName(t)]; ok {
		return f.True()
	}
	switch u := t.Underlying().(type) {
	case *types.Pointer, *types.Map:
		return f.Lt(x, fr)
	case *types.Slice:
		return f.Lt(f.Acc("Slice", "ref", x), fr)
	case *types.Struct:
		if depth <= 0 {
			return f.True()
		}
		dt, s, ok := ex.tm.StructOf(t)
		if !ok {
			return f.True()
		}
		var cs []*Term
		for i := 0; i < s.NumFields(); i++ {
			cs = append(cs, ex.refsBelow(f.Acc(dt, fieldName(s, i), x), s.Field(i).Type(), fr, depth-1))
		}
		_ = u
		return f.And(cs...)
	}
	return f.True()
}

// typedFacts assumes what the type system guarantees about a value that came from outside.
func (ex *Exec) typedFacts(st *State, x *Term, t types.Type) {
	ex.assume(st, ex.tm.WellTyped(x, t, 2))
	ex.assume(st, ex.refsBelow(x, t, st.frontier, 2))
}

func (ex *Exec) freshOf(st *State, name string, t types.Type) *Term {
	v := ex.f.Fresh(name, ex.tm.SortOf(t))
	ex.typedFacts(st, v, t)
	return v
}

// ---------- states

func (ex *Exec) orFactor(a, b *Term) *Term {
	f := ex.f
	la := []*Term{a}
	if a.op == "and" {
		la = a.args
	}
	lb := []*Term{b}
	if b.op == "and" {
		lb = b.args
	}
	inB := map[*Term]bool{}
	for _, x := range lb {
		inB[x] = true
	}
	var common, ra, rb []*Term
	inC := map[*Term]bool{}
	for _, x := range la {
		if inB[x] {
			common = append(common, x)
			inC[x] = true
		} else {
			ra = append(ra, x)
		}
	}
	for _, x := range lb {
		if !inC[x] {
			rb = append(rb, x)
		}
	}
	return f.And(append(common, f.Or(f.And(ra...), f.And(rb...)))...)
}

func (ex *Exec) merge(states []*State) *State {
	f := ex.f
	if len(states) == 1 {
		return states[0].clone()
	}
	res := states[0].clone()
	for _, s := range states[1:] {
		c := s.pc // condition selecting s (edge conditions are mutually exclusive)
		keys := map[string]bool{}
		for k := range res.heap {
			keys[k] = true
		}
		for k := range s.heap {
			keys[k] = true
		}
		newGen := res.gen
		if res.gen != s.gen {
			ex.genCtr++
			newGen = ex.genCtr
			for k := range ex.compSort {
				keys[k] = true
			}
		}
		nh := map[string]*Term{}
		for k := range keys {
			a := ex.comp(res, k, ex.compSort[k])
			b := ex.comp(s, k, ex.compSort[k])
			nh[k] = f.Ite(c, b, a)
		}
		res.heap = nh
		res.gen = newGen
		// a component havocked-before-read on either side stays so (over-approximation)
	nextLazy:
		for _, l := range s.lazy {
			for _, m := range res.lazy {
				if m == l {
					continue nextLazy
				}
			}
			res.lazy = append(res.lazy, l)
		}
		res.frontier = f.Ite(c, s.frontier, res.frontier)
		if _, ok := ex.genFrontier[newGen]; !ok {
			ex.genFrontier[newGen] = res.frontier
		}
		res.world = f.Ite(c, s.world, res.world)
		res.pc = ex.orFactor(res.pc, s.pc)
	}
	return res
}

// ---------- frames

type deferred struct {
	call  *ssa.CallCommon
	args  []*Term
	fnval *Term
	guard *Term
	instr ssa.Instruction
}

type Frame struct {
	ex        *Exec
	fn        *ssa.Function
	env       map[ssa.Value]*Term
	tup       map[ssa.Value][]*Term
	entry     *State
	params    []*Term
	free      []*Term
	depth     int
	contract  *Contract
	verifying bool
	defers    []deferred
	loops     map[*ssa.BasicBlock]*loopInfo
	loopOrd   []*ssa.BasicBlock
	debug     map[string][]*ssa.DebugRef
	callOrd   map[ssa.Instruction]string // "callee#k"
	safety    bool
	results   []*Term
	exit      *State
	parent    *Frame
	id        int
}

func (fr *Frame) localName(a *ssa.Alloc) string {
	return fmt.Sprintf("local.%s.%d.%s", sanitize(fr.fn.Name()), fr.id, a.Name())
}

type loopInfo struct {
	header *ssa.BasicBlock
	body   map[*ssa.BasicBlock]bool
	ord    int
	writeRows []*Term // 'loop <n> writes': the only backing arrays whose elements the loop writes
	head   *State // state at the loop head (after havoc and invariants), for prev() in step clauses
	earlyExits []*Term // path conditions of the edges that leave the loop from inside its body (break, return)
}

func (fr *Frame) key() string { return fnKey(fr.fn) }

func fnKey(fn *ssa.Function) string {
	o := fn
	if fn.Origin() != nil {
		o = fn.Origin()
	}
	pkg := ""
	if o.Pkg != nil {
		pkg = o.Pkg.Pkg.Path()
	} else if o.Object() != nil && o.Object().Pkg() != nil {
		pkg = o.Object().Pkg().Path()
	}
	if recv := o.Signature.Recv(); recv != nil {
		t := recv.Type()
		if p, ok := t.(*types.Pointer); ok {
			t = p.Elem()
		}
		t = types.Unalias(t)
		if n, ok := t.(*types.Named); ok {
			return pkg + ".(" + n.Obj().Name() + ")." + o.Name()
		}
	}
	if o.Parent() != nil {
		return fnKey(o.Parent()) + "$" + strings.TrimPrefix(o.Name(), o.Parent().Name()+"$")
	}
	return pkg + "." + o.Name()
}

func (ex *Exec) newFrame(fn *ssa.Function, parent *Frame) *Frame {
	ex.frameCtr++
	fr := &Frame{ex: ex, fn: fn, env: map[ssa.Value]*Term{}, tup: map[ssa.Value][]*Term{}, parent: parent, id: ex.frameCtr}
	if parent != nil {
		fr.depth = parent.depth + 1
	}
	fr.analyze()
	return fr
}

func (fr *Frame) analyze() {
	fn := fr.fn
	fr.loops = map[*ssa.BasicBlock]*loopInfo{}
	fr.debug = map[string][]*ssa.DebugRef{}
	fr.callOrd = map[ssa.Instruction]string{}
	counts := map[string]int{}
	var calls []ssa.Instruction
	defer func() {
		// call sites are numbered per callee name in source order (not in SSA block order)
		sort.SliceStable(calls, func(i, j int) bool {
			pi, pj := calls[i].Pos(), calls[j].Pos()
			if pi == token.NoPos || pj == token.NoPos {
				return pj == token.NoPos && pi != token.NoPos
			}
			return pi < pj
		})
		for _, in := range calls {
			name := calleeShortName(in.(ssa.CallInstruction).Common())
			fr.callOrd[in] = fmt.Sprintf("%s#%d", name, counts[name])
			counts[name]++
		}
	}()
	for _, b := range fn.Blocks {
		for _, in := range b.Instrs {
			if d, ok := in.(*ssa.DebugRef); ok {
				if id, ok := d.Expr.(interface{ String() string }); ok {
					_ = id
				}
				if obj := d.Object(); obj != nil {
					fr.debug[obj.Name()] = append(fr.debug[obj.Name()], d)
				}
			}
			if _, ok := in.(ssa.CallInstruction); ok {
				calls = append(calls, in)
			}
		}
		for _, s := range b.Succs {
			if s.Dominates(b) { // back edge b -> s
				li := fr.loops[s]
				if li == nil {
					li = &loopInfo{header: s, body: map[*ssa.BasicBlock]bool{s: true}}
					fr.loops[s] = li
				}
				// natural loop: nodes that reach b without passing s
				var stack []*ssa.BasicBlock
				if !li.body[b] {
					li.body[b] = true
					stack = append(stack, b)
				}
				for len(stack) > 0 {
					x := stack[len(stack)-1]
					stack = stack[:len(stack)-1]
					for _, p := range x.Preds {
						if !li.body[p] {
							li.body[p] = true
							stack = append(stack, p)
						}
					}
				}
			}
		}
	}
	for h := range fr.loops {
		fr.loopOrd = append(fr.loopOrd, h)
	}
	sort.Slice(fr.loopOrd, func(i, j int) bool { return fr.loopOrd[i].Index < fr.loopOrd[j].Index })
	for i, h := range fr.loopOrd {
		fr.loops[h].ord = i
	}
}

func calleeShortName(c *ssa.CallCommon) string {
	if c.IsInvoke() {
		return c.Method.Name()
	}
	if fn := c.StaticCallee(); fn != nil {
		n := fn.Name()
		if fn.Origin() != nil {
			n = fn.Origin().Name()
		}
		return n
	}
	if b, ok := c.Value.(*ssa.Builtin); ok {
		return b.Name()
	}
	// a call through a function-valued struct field (cs.forkCallback(...)) is named after the field
	if u, ok := c.Value.(*ssa.UnOp); ok {
		if fa, ok := u.X.(*ssa.FieldAddr); ok {
			if pt, ok := types.Unalias(fa.X.Type()).Underlying().(*types.Pointer); ok {
				if s, ok := types.Unalias(pt.Elem()).Underlying().(*types.Struct); ok && fa.Field < s.NumFields() {
					return s.Field(fa.Field).Name()
				}
			}
		}
	}
	return "dynamic"
}

// ---------- values

func (fr *Frame) val(v ssa.Value) *Term {
	ex := fr.ex
	f := ex.f
	switch x := v.(type) {
	case *ssa.Const:
		return ex.constTerm(x)
	case *ssa.Function:
		t := f.Var("fn."+sanitize(x.String()), SInt)
		if _, ok := ex.closures[t]; !ok {
			ex.closures[t] = &closureInfo{fn: x}
			ex.assumes = append(ex.assumes, f.Gt(t, f.Int(0)))
		}
		return t
	case *ssa.Global:
		t := f.Var("glob."+sanitize(x.String()), SInt)
		if _, seen := ex.closures[t]; !seen {
			ex.closures[t] = nil // marker: address of a package-level variable, never nil
			ex.assumes = append(ex.assumes, f.Gt(t, f.Int(0)))
		}
		return t
	case *ssa.Builtin:
		return f.Var("builtin."+x.Name(), SInt)
	}
	if t, ok := fr.env[v]; ok {
		return t
	}
	// value not yet computed (e.g. from an unreachable block): unconstrained
	ex.note("use of undefined SSA value %s in %s", v.Name(), fr.fn.Name())
	t := f.Fresh("undef."+v.Name(), ex.tm.SortOf(v.Type()))
	fr.env[v] = t
	return t
}

func (ex *Exec) constTerm(c *ssa.Const) *Term {
	f := ex.f
	t := c.Type()
	if c.Value == nil {
		return ex.tm.Zero(t)
	}
	s := ex.tm.SortOf(t)
	switch s {
	case SBool:
		return f.Bool(constant.BoolVal(c.Value))
	case SStr:
		return f.StrLit(constant.StringVal(c.Value))
	case SReal:
		r := constant.ToFloat(c.Value)
		num := constant.Num(r)
		den := constant.Denom(r)
		nb, _ := new(big.Int).SetString(num.ExactString(), 10)
		db, _ := new(big.Int).SetString(den.ExactString(), 10)
		if nb == nil || db == nil {
			return f.Fresh("fconst", SReal)
		}
		if db.Cmp(big.NewInt(1)) == 0 {
			return f.Real(nb)
		}
		return f.RDiv(f.Real(nb), f.Real(db))
	case SInt:
		v := constant.ToInt(c.Value)
		if v.Kind() == constant.Int {
			b, ok := new(big.Int).SetString(v.ExactString(), 10)
			if ok {
				return f.BigInt(b)
			}
		}
	}
	return f.Fresh("const", s)
}

// wrap reduces an exact integer result to the range of type t (Go machine arithmetic).
func (ex *Exec) wrap(x *Term, t types.Type) *Term {
	f := ex.f
	b, ok := types.Unalias(t).Underlying().(*types.Basic)
	if !ok || b.Info()&types.IsInteger == 0 {
		return x
	}
	bits, signed := intBits(b)
	m := new(big.Int).Lsh(big.NewInt(1), bits)
	if x.op == "int" {
		r := new(big.Int).Mod(x.ival, m)
		if signed && r.Cmp(new(big.Int).Rsh(m, 1)) >= 0 {
			r.Sub(r, m)
		}
		return f.BigInt(r)
	}
	if !signed {
		return f.Mod(x, f.BigInt(m))
	}
	half := new(big.Int).Rsh(m, 1)
	return f.Sub(f.Mod(f.Add(x, f.BigInt(half)), f.BigInt(m)), f.BigInt(half))
}

// wrapAddSub wraps a value known to be within one modulus of the range (cheap ite form).
func (ex *Exec) wrap1(x *Term, t types.Type) *Term {
	f := ex.f
	b, ok := types.Unalias(t).Underlying().(*types.Basic)
	if !ok || b.Info()&types.IsInteger == 0 {
		return x
	}
	if x.op == "int" {
		return ex.wrap(x, t)
	}
	lo, hi, _ := intRange(b)
	bits, _ := intBits(b)
	m := f.BigInt(new(big.Int).Lsh(big.NewInt(1), bits))
	return f.Ite(f.Gt(x, f.BigInt(hi)), f.Sub(x, m), f.Ite(f.Lt(x, f.BigInt(lo)), f.Add(x, m), x))
}

func isUnsigned(t types.Type) bool {
	b, ok := types.Unalias(t).Underlying().(*types.Basic)
	return ok && b.Info()&types.IsUnsigned != 0
}

func isIntType(t types.Type) bool {
	b, ok := types.Unalias(t).Underlying().(*types.Basic)
	return ok && b.Info()&types.IsInteger != 0
}

// truncDiv: Go's truncated division on exact integers.
func (ex *Exec) truncDiv(a, b *Term) *Term {
	f := ex.f
	// SMT div is euclidean (remainder >= 0); Go truncates toward zero.
	q := f.Div(a, b)
	if a.op == "int" && b.op == "int" && b.ival.Sign() != 0 {
		return f.BigInt(new(big.Int).Quo(a.ival, b.ival))
	}
	// if a >= 0: trunc == euclid. if a < 0 and remainder != 0: euclid q is one step away from zero-ward.
	r := f.Mod(a, b)
	adj := f.Ite(f.Gt(b, f.Int(0)), f.Add(q, f.Int(1)), f.Sub(q, f.Int(1)))
	return f.Ite(f.Or(f.Ge(a, f.Int(0)), f.Eq(r, f.Int(0))), q, adj)
}

func (ex *Exec) truncRem(a, b *Term) *Term {
	f := ex.f
	if a.op == "int" && b.op == "int" && b.ival.Sign() != 0 {
		return f.BigInt(new(big.Int).Rem(a.ival, b.ival))
	}
	return f.Sub(a, f.Mul(b, ex.truncDiv(a, b)))
}

func (fr *Frame) binop(st *State, in *ssa.BinOp) *Term {
	ex := fr.ex
	f := ex.f
	x, y := fr.val(in.X), fr.val(in.Y)
	xt := in.X.Type()
	rt := in.Type()
	switch in.Op {
	case token.EQL:
		return ex.eqVals(x, y)
	case token.NEQ:
		return f.Not(ex.eqVals(x, y))
	}
	if x.sort == SStr {
		switch in.Op {
		case token.ADD:
			return ex.strConcat(x, y)
		case token.LSS:
			return f.App("str.lt_", SBool, x, y)
		case token.GTR:
			return f.App("str.lt_", SBool, y, x)
		case token.LEQ:
			return f.Not(f.App("str.lt_", SBool, y, x))
		case token.GEQ:
			return f.Not(f.App("str.lt_", SBool, x, y))
		}
	}
	if x.sort == SReal || y.sort == SReal {
		x, y = f.ToReal(x), f.ToReal(y)
		switch in.Op {
		case token.ADD:
			return f.Add(x, y)
		case token.SUB:
			return f.Sub(x, y)
		case token.MUL:
			return f.Mul(x, y)
		case token.QUO:
			return f.RDiv(x, y)
		case token.LSS:
			return f.Lt(x, y)
		case token.LEQ:
			return f.Le(x, y)
		case token.GTR:
			return f.Gt(x, y)
		case token.GEQ:
			return f.Ge(x, y)
		}
	}
	if x.sort == SBool {
		switch in.Op {
		case token.AND, token.LAND:
			return f.And(x, y)
		case token.OR, token.LOR:
			return f.Or(x, y)
		case token.XOR:
			return f.Not(f.Eq(x, y))
		}
	}
	switch in.Op {
	case token.LSS:
		return f.Lt(x, y)
	case token.LEQ:
		return f.Le(x, y)
	case token.GTR:
		return f.Gt(x, y)
	case token.GEQ:
		return f.Ge(x, y)
	case token.ADD:
		return ex.wrap1(f.Add(x, y), rt)
	case token.SUB:
		return ex.wrap1(f.Sub(x, y), rt)
	case token.MUL:
		return ex.wrap(f.Mul(x, y), rt)
	case token.QUO:
		fr.safetyOb(st, in, "div0", f.Neq(y, f.Int(0)))
		if isUnsigned(rt) {
			return f.Div(x, y)
		}
		return ex.wrap1(ex.truncDiv(x, y), rt)
	case token.REM:
		fr.safetyOb(st, in, "div0", f.Neq(y, f.Int(0)))
		if isUnsigned(rt) {
			return f.Mod(x, y)
		}
		return ex.truncRem(x, y)
	case token.SHL:
		if y.op == "int" && y.ival.IsInt64() && y.ival.Int64() < 200 && y.ival.Sign() >= 0 {
			return ex.wrap(f.Mul(x, f.BigInt(new(big.Int).Lsh(big.NewInt(1), uint(y.ival.Int64())))), rt)
		}
	case token.SHR:
		if y.op == "int" && y.ival.IsInt64() && y.ival.Int64() < 200 && y.ival.Sign() >= 0 {
			// arithmetic shift = floor division (euclidean div with positive divisor is floor)
			return f.Div(x, f.BigInt(new(big.Int).Lsh(big.NewInt(1), uint(y.ival.Int64()))))
		}
	case token.AND:
		// x & (2^k - 1)
		if y.op == "int" && isUnsigned(xt) {
			m := new(big.Int).Add(y.ival, big.NewInt(1))
			if m.Sign() > 0 && new(big.Int).And(m, y.ival).Sign() == 0 {
				return f.Mod(x, f.BigInt(m))
			}
		}
	}
	ex.note("uninterpreted integer operator %s", in.Op)
	r := f.App("op."+opName(in.Op)+"."+sanitize(types.Unalias(rt).Underlying().String()), SInt, x, y)
	ex.assume(st, ex.tm.WellTyped(r, rt, 1))
	return r
}

func opName(t token.Token) string {
	switch t {
	case token.AND:
		return "and"
	case token.OR:
		return "or"
	case token.XOR:
		return "xor"
	case token.AND_NOT:
		return "andnot"
	case token.SHL:
		return "shl"
	case token.SHR:
		return "shr"
	}
	return sanitize(t.String())
}

func (ex *Exec) eqVals(x, y *Term) *Term {
	if x.sort != y.sort {
		// comparisons between an interface and a concrete value etc.
		return ex.f.Fresh("eq", SBool)
	}
	return ex.f.Eq(x, y)
}

func (ex *Exec) strConcat(a, b *Term) *Term {
	f := ex.f
	if a.op == "strlit" && b.op == "strlit" {
		return f.StrLit(a.name + b.name)
	}
	if a.op == "strlit" && a.name == "" {
		return b
	}
	if b.op == "strlit" && b.name == "" {
		return a
	}
	r := f.App("str.cat_", SStr, a, b)
	ex.assumes = append(ex.assumes, f.Eq(ex.tm.StrLen(r), f.Add(ex.tm.StrLen(a), ex.tm.StrLen(b))))
	return r
}

func (fr *Frame) safetyOb(st *State, in ssa.Instruction, reason string, cond *Term) {
	if !fr.safety || cond.IsTrue() {
		return
	}
	ex := fr.ex
	root := fr
	for root.parent != nil {
		root = root.parent
	}
	pos := ex.W.prog.Fset.Position(in.Pos())
	n := 0
	prefix := fmt.Sprintf("%s/safety:%s@%s", root.key(), reason, shortFnName(fr.fn))
	for _, o := range ex.obligs {
		if strings.HasPrefix(o.Name, prefix+"#") {
			n++
		}
	}
	ex.addOblig(&Obligation{Name: fmt.Sprintf("%s#%d", prefix, n), Kind: "safety", Fn: root.key(), Goal: cond, PC: st.pc, Pos: pos.String()})
}

func shortFnName(fn *ssa.Function) string {
	return fn.Name()
}

func (ex *Exec) addOblig(o *Obligation) {
	if ex.instSuffix != "" {
		if i := strings.LastIndex(o.Name, "/"); i >= 0 {
			o.Name = o.Name[:i] + ex.instSuffix + o.Name[i:]
		}
	}
	o.NAssume = len(ex.assumes)
	o.Inputs = ex.inputs
	ex.obligs = append(ex.obligs, o)
}

// ---------- function body execution

type edge struct {
	from *ssa.BasicBlock
	st   *State
}

// run executes the body of fr.fn from state st; returns the merged exit state (nil if no return is reachable).
func (fr *Frame) run(st *State) (*State, []*Term) {
	ex := fr.ex
	f := ex.f
	fn := fr.fn
	if len(fn.Blocks) == 0 {
		panic("no body for " + fn.String())
	}
	fr.entry = st.clone()
	// reverse post-order ignoring back edges
	visited := map[*ssa.BasicBlock]bool{}
	var post []*ssa.BasicBlock
	var dfs func(b *ssa.BasicBlock)
	dfs = func(b *ssa.BasicBlock) {
		visited[b] = true
		for _, s := range b.Succs {
			if !visited[s] && !s.Dominates(b) {
				dfs(s)
			}
		}
		post = append(post, b)
	}
	dfs(fn.Blocks[0])
	incoming := map[*ssa.BasicBlock][]edge{}
	var exits []*State
	var exitVals [][]*Term
	nres := fn.Signature.Results().Len()

	for i := len(post) - 1; i >= 0; i-- {
		b := post[i]
		var cur *State
		var ins []edge
		if b == fn.Blocks[0] {
			cur = st
		} else {
			ins = incoming[b]
			var live []edge
			for _, e := range ins {
				if !e.st.pc.IsFalse() {
					live = append(live, e)
				}
			}
			ins = live
			if len(ins) == 0 {
				continue
			}
			sts := make([]*State, len(ins))
			for k, e := range ins {
				sts[k] = e.st
			}
			cur = ex.merge(sts)
		}
		// phis
		idx := 0
		var phis []*ssa.Phi
		for idx < len(b.Instrs) {
			p, ok := b.Instrs[idx].(*ssa.Phi)
			if !ok {
				break
			}
			phis = append(phis, p)
			idx++
		}
		phiVal := func(p *ssa.Phi, edges []edge) *Term {
			var t *Term
			for k := len(edges) - 1; k >= 0; k-- {
				e := edges[k]
				var pv *Term
				for pi, pred := range b.Preds {
					if pred == e.from {
						pv = fr.val(p.Edges[pi])
						break
					}
				}
				if pv == nil {
					panic("phi edge not found")
				}
				if t == nil {
					t = pv
				} else {
					t = f.Ite(e.st.pc, pv, t)
				}
			}
			return t
		}
		if li, isLoop := fr.loops[b]; isLoop {
			// entry edges only (back edges are never queued)
			entryVals := map[*ssa.Phi]*Term{}
			for _, p := range phis {
				entryVals[p] = phiVal(p, ins)
			}
			fr.loopHeader(cur, li, phis, entryVals)
		} else {
			for _, p := range phis {
				fr.env[p] = phiVal(p, ins)
			}
		}
		terminated := false
		for ; idx < len(b.Instrs) && !terminated; idx++ {
			in := b.Instrs[idx]
			switch x := in.(type) {
			case *ssa.If:
				c := fr.val(x.Cond)
				s1 := cur.clone()
				s1.pc = f.And(cur.pc, c)
				s2 := cur
				s2.pc = f.And(cur.pc, f.Not(c))
				fr.pushEdge(incoming, b, b.Succs[0], s1)
				fr.pushEdge(incoming, b, b.Succs[1], s2)
				terminated = true
			case *ssa.Jump:
				fr.pushEdge(incoming, b, b.Succs[0], cur)
				terminated = true
			case *ssa.Return:
				vals := make([]*Term, len(x.Results))
				for k, r := range x.Results {
					vals[k] = fr.val(r)
				}
				exits = append(exits, cur)
				exitVals = append(exitVals, vals)
				terminated = true
				for _, li := range fr.loops {
					if b != li.header && li.body[b] {
						li.earlyExits = append(li.earlyExits, cur.pc)
					}
				}
			case *ssa.Panic:
				fr.safetyOb(cur, in, "panic", f.False())
				terminated = true
			default:
				if !fr.step(cur, in) {
					terminated = true
				}
				if cur.pc.IsFalse() {
					terminated = true
				}
			}
		}
	}
	if len(exits) == 0 {
		return nil, nil
	}
	out := ex.merge(exits)
	res := make([]*Term, nres)
	for k := 0; k < nres; k++ {
		var t *Term
		for j := len(exits) - 1; j >= 0; j-- {
			if t == nil {
				t = exitVals[j][k]
			} else {
				t = f.Ite(exits[j].pc, exitVals[j][k], t)
			}
		}
		res[k] = t
	}
	fr.exit, fr.results = out, res
	return out, res
}

func (fr *Frame) pushEdge(incoming map[*ssa.BasicBlock][]edge, from, to *ssa.BasicBlock, st *State) {
	if st.pc.IsFalse() {
		return
	}
	if to.Dominates(from) {
		// back edge: prove the invariant is re-established, path ends
		if debugOn {
			fmt.Printf("DEBUG back edge %s: %d -> %d (loop known: %v, verifying %v)\n", fr.fn.Name(), from.Index, to.Index, fr.loops[to] != nil, fr.verifyingRoot())
		}
		if li := fr.loops[to]; li != nil {
			fr.loopBackEdge(st, li, from)
		}
		return
	}
	// an edge that leaves a loop from inside its body (not from the header's own test): a break or the like
	for _, li := range fr.loops {
		if from != li.header && li.body[from] && to != li.header && !li.body[to] {
			li.earlyExits = append(li.earlyExits, st.pc)
		}
	}
	incoming[to] = append(incoming[to], edge{from: from, st: st})
}

// loopCompleteObligations: 'loop <n> complete' - the loop is left only through its header, i.e. after the last
// element: every edge that leaves it from inside the body (break, goto) is unreachable. The obligation exists
// (trivially true) when there is no such edge, so that it is part of the baseline and a later early exit fails it.
func (fr *Frame) loopCompleteObligations(ct *Contract) {
	ex := fr.ex
	f := ex.f
	for _, li := range fr.loops {
		for k, cl := range ct.Invs {
			if cl.Loop != li.ord || cl.Kind != "complete" || !cl.HasTag(ex.prop) {
				continue
			}
			goal := f.True()
			for _, pc := range li.earlyExits {
				goal = f.And(goal, f.Not(pc))
			}
			ex.addOblig(&Obligation{Name: fmt.Sprintf("%s/loop-complete@%s", fr.key(), fr.invName(li, cl, k)), Kind: "loop-complete", Fn: fr.rootKey(), Goal: goal, PC: f.True(), Clause: cl})
		}
	}
}

// step executes one non-terminator instruction. Returns false if the path ends.
func (fr *Frame) step(st *State, in ssa.Instruction) bool {
	ex := fr.ex
	f := ex.f
	switch x := in.(type) {
	case *ssa.DebugRef:
		return true
	case *ssa.Alloc:
		var r *Term
		if !x.Heap {
			r = f.Var(fr.localName(x), SInt)
			// a local variable comes into being after the verified function was entered: it is none of the
			// objects that existed then (A0 is the allocation frontier at entry)
			ex.assumes = append(ex.assumes, f.Gt(r, f.Int(0)), f.Ge(r, f.Var("A0", SInt)))
		} else {
			r = ex.alloc(st)
			ex.assume(st, f.Gt(r, f.Int(0)))
		}
		et := x.Type().Underlying().(*types.Pointer).Elem()
		ex.store(st, r, et, ex.tm.Zero(et))
		fr.env[x] = r
	case *ssa.Store:
		ex.store(st, fr.val(x.Addr), x.Val.Type(), fr.val(x.Val))
	case *ssa.UnOp:
		fr.env[x] = fr.unop(st, x)
	case *ssa.BinOp:
		fr.env[x] = fr.binop(st, x)
	case *ssa.FieldAddr:
		base := fr.val(x.X)
		pt := types.Unalias(x.X.Type()).Underlying().(*types.Pointer).Elem()
		fr.safetyOb(st, in, "nil", f.Neq(base, f.Int(0)))
		// execution continues past &p.f only when p != nil (nil panics here)
		ex.assume(st, f.Neq(base, f.Int(0)))
		if dt, s, ok := ex.tm.StructOf(pt); ok {
			fr.env[x] = ex.faddr(base, dt, fieldName(s, x.Field))
			// &p.f is never nil (p == nil panics before)
			ex.assume(st, f.Gt(fr.env[x], f.Int(0)))
		} else {
			// field of an opaque (non-lava) struct
			s := types.Unalias(pt).Underlying().(*types.Struct)
			fr.env[x] = f.App("ofaddr."+sanitize(typeFullName(pt))+"."+fieldName(s, x.Field), SInt, base)
			// a field lies inside its object: its address is not below the object's (so a field of an object
			// allocated after some point is itself newer than that point)
			ex.assume(st, f.Ge(fr.env[x], base))
		}
	case *ssa.Field:
		v := fr.val(x.X)
		if dt, s, ok := ex.tm.StructOf(x.X.Type()); ok {
			fr.env[x] = f.Acc(dt, fieldName(s, x.Field), v)
		} else {
			s := types.Unalias(x.X.Type()).Underlying().(*types.Struct)
			r := f.App("ofield."+sanitize(typeFullName(x.X.Type()))+"."+fieldName(s, x.Field), ex.tm.SortOf(x.Type()), v)
			ex.assume(st, ex.tm.WellTyped(r, x.Type(), 1))
			fr.env[x] = r
		}
	case *ssa.IndexAddr:
		fr.indexAddr(st, x)
	case *ssa.Index:
		fr.index(st, x)
	case *ssa.Slice:
		fr.sliceOp(st, x)
	case *ssa.Lookup:
		fr.lookup(st, x)
	case *ssa.MapUpdate:
		fr.mapUpdate(st, x)
	case *ssa.MakeMap:
		r := ex.alloc(st)
		ex.assume(st, f.Gt(r, f.Int(0)))
		mt := types.Unalias(x.Type()).Underlying().(*types.Map)
		ex.mapInit(st, r, mt)
		fr.env[x] = r
	case *ssa.MakeSlice:
		r := ex.alloc(st)
		ex.assume(st, f.Gt(r, f.Int(0)))
		l, c := fr.val(x.Len), fr.val(x.Cap)
		et := types.Unalias(x.Type()).Underlying().(*types.Slice).Elem()
		es := ex.tm.SortOf(et)
		name := ex.eComp(et)
		e := ex.comp(st, name, ArraySort(SInt, ArraySort(SInt, es)))
		ex.setComp(st, name, f.Store(e, r, f.ConstArray(ArraySort(SInt, es), ex.tm.Zero(et))))
		fr.env[x] = f.Mk("Slice", r, f.Int(0), l, c)
	case *ssa.MakeChan:
		r := ex.alloc(st)
		fr.env[x] = r
	case *ssa.MakeInterface:
		fr.env[x] = ex.box(st, fr.val(x.X), x.X.Type())
	case *ssa.MakeClosure:
		r := ex.alloc(st)
		ex.assume(st, f.Gt(r, f.Int(0)))
		ci := &closureInfo{fn: x.Fn.(*ssa.Function)}
		for _, b := range x.Bindings {
			ci.bindings = append(ci.bindings, fr.val(b))
		}
		ex.closures[r] = ci
		fr.env[x] = r
	case *ssa.ChangeType:
		v := fr.val(x.X)
		if v.sort != ex.tm.SortOf(x.Type()) {
			if v.sort == ArraySort(SStr, SInt) && ex.tm.SortOf(x.Type()) == Sort("Slice") {
				// Coins -> []Coin (the variadic form coins.Add(other...)): the coin-set value is kept; the library
				// models accept it where a coin list is expected
			} else {
				v = ex.freshOf(st, "changetype", x.Type())
			}
		}
		fr.env[x] = v
	case *ssa.ChangeInterface:
		fr.env[x] = fr.val(x.X)
	case *ssa.Convert:
		fr.env[x] = fr.convert(st, x)
	case *ssa.MultiConvert:
		fr.env[x] = ex.freshOf(st, "multiconvert", x.Type())
	case *ssa.SliceToArrayPointer:
		fr.env[x] = ex.freshOf(st, "s2ap", x.Type())
	case *ssa.TypeAssert:
		fr.typeAssert(st, x)
	case *ssa.Extract:
		tv := fr.tup[x.Tuple]
		if tv == nil {
			fr.env[x] = ex.freshOf(st, "extract", x.Type())
		} else {
			fr.env[x] = tv[x.Index]
		}
	case *ssa.Call:
		res := fr.call(st, x.Common(), x)
		if st.pc.IsFalse() {
			return false
		}
		sig := x.Common().Signature()
		if sig.Results().Len() == 1 {
			fr.env[x] = res[0]
		} else if sig.Results().Len() > 1 {
			fr.tup[x] = res
		}
	case *ssa.Defer:
		d := deferred{call: x.Common(), guard: st.pc, instr: x}
		for _, a := range x.Common().Args {
			d.args = append(d.args, fr.val(a))
		}
		if !x.Common().IsInvoke() {
			d.fnval = fr.val(x.Common().Value)
		} else {
			d.fnval = fr.val(x.Common().Value)
		}
		fr.defers = append(fr.defers, d)
	case *ssa.RunDefers:
		for i := len(fr.defers) - 1; i >= 0; i-- {
			d := fr.defers[i]
			fr.runDeferred(st, d)
		}
	case *ssa.Go:
		if fr.goHasNoEffect(x) {
			// the started call is declared (contract) to write nothing of the modelled state
			ex.trustedUsed["go statement starting a call whose contract assigns nothing: no effect on the sequential view ("+fr.fn.Name()+")"] = true
			break
		}
		if comps, ok := fr.goAssigns(x); ok {
			// the started call may run at any time from here on: what its contract lets it write is unknown
			ex.havocComps(st, comps)
			break
		}
		ex.note("go statement in %s: treated as an environment step (all heap havocked)", fr.fn.Name())
		ex.havocAll(st, "go statement")
	case *ssa.Range:
		fr.rangeInit(st, x)
	case *ssa.Next:
		fr.rangeNext(st, x)
	case *ssa.Send, *ssa.Select:
		ex.note("channel operation in %s: outside subset, heap havocked", fr.fn.Name())
		ex.havocAll(st, "channel operation")
		if v, ok := in.(ssa.Value); ok {
			if tt, ok := v.Type().(*types.Tuple); ok {
				var vals []*Term
				for i := 0; i < tt.Len(); i++ {
					vals = append(vals, ex.freshOf(st, "select", tt.At(i).Type()))
				}
				fr.tup[v] = vals
			} else {
				fr.env[v] = ex.freshOf(st, "chan", v.Type())
			}
		}
	default:
		ex.note("unsupported instruction %T", in)
		if v, ok := in.(ssa.Value); ok {
			fr.env[v] = ex.freshOf(st, "unsupported", v.Type())
		}
		ex.havocAll(st, fmt.Sprintf("unsupported %T", in))
	}
	return true
}

func (ex *Exec) box(st *State, v *Term, t types.Type) *Term {
	f := ex.f
	t = types.Unalias(t)
	switch t.Underlying().(type) {
	case *types.Pointer, *types.Interface, *types.Map, *types.Chan, *types.Signature:
		if _, special := ex.tm.special[typeFullName(t)]; !special {
			return v
		}
	}
	name := "box." + sanitize(ex.tm.boxName(t))
	r := f.App(name, SInt, v)
	ex.assumes = append(ex.assumes, f.Gt(r, f.Int(0)))
	return r
}

func (tm *TypeMap) boxName(t types.Type) string {
	if n, ok := types.Unalias(t).(*types.Named); ok {
		return tm.dtName(n)
	}
	return t.String()
}

func (fr *Frame) typeAssert(st *State, x *ssa.TypeAssert) {
	ex := fr.ex
	f := ex.f
	v := fr.val(x.X)
	at := types.Unalias(x.AssertedType)
	var res, ok *Term
	switch at.Underlying().(type) {
	case *types.Interface:
		res = v
		ok = f.Neq(v, f.Int(0))
		if !x.CommaOk {
			ok = f.True()
		}
	default:
		name := "box." + sanitize(ex.tm.boxName(at))
		s := ex.tm.SortOf(at)
		if v.op == "app" && v.name == name {
			res = v.args[0]
			ok = f.True()
		} else {
			isptr := false
			switch at.Underlying().(type) {
			case *types.Pointer, *types.Map, *types.Chan, *types.Signature:
				isptr = true
			}
			ok = f.Fresh("typeok", SBool)
			if isptr {
				res = v
			} else {
				res = f.App("unbox."+sanitize(ex.tm.boxName(at)), s, v)
				ex.assume(st, ex.tm.WellTyped(res, at, 1))
			}
		}
	}
	if x.CommaOk {
		fr.tup[x] = []*Term{f.Ite(ok, res, ex.tm.Zero(at)), ok}
	} else {
		fr.safetyOb(st, x, "typeassert", ok)
		fr.env[x] = res
	}
}

func (fr *Frame) unop(st *State, x *ssa.UnOp) *Term {
	ex := fr.ex
	f := ex.f
	switch x.Op {
	case token.MUL:
		p := fr.val(x.X)
		fr.safetyOb(st, x, "nil", f.Neq(p, f.Int(0)))
		v := ex.load(st, p, x.Type())
		ex.assume(st, ex.tm.WellTyped(v, x.Type(), 1))
		ex.assume(st, ex.loadedRefFacts(v, x.Type(), 1))
		if g, ok := x.X.(*ssa.Global); ok {
			if iv := ex.globalInitValue(fr, st, g); iv != nil && iv.sort == v.sort {
				ex.trustedUsed["package-level variable keeps the value its package init gives it (never reassigned): "+g.String()] = true
				ex.assume(st, f.Eq(v, iv))
			}
		}
		if g, ok := x.X.(*ssa.Global); ok && ex.W.nonNilGlobal(g) {
			ex.trustedUsed["package-level error variable set once by an error constructor in init is non-nil: "+g.String()] = true
			ex.assume(st, f.Gt(v, f.Int(0)))
		}
		return v
	case token.NOT:
		return f.Not(fr.val(x.X))
	case token.SUB:
		v := fr.val(x.X)
		if v.sort == SReal {
			return f.Neg(v)
		}
		return ex.wrap1(f.Neg(v), x.Type())
	case token.XOR:
		v := fr.val(x.X)
		if isUnsigned(x.Type()) {
			b := types.Unalias(x.Type()).Underlying().(*types.Basic)
			_, hi, _ := intRange(b)
			return f.Sub(f.BigInt(hi), v)
		}
		return f.Sub(f.Neg(v), f.Int(1))
	case token.ARROW:
		ex.note("channel receive in %s: outside subset", fr.fn.Name())
		ex.havocAll(st, "channel receive")
		if x.CommaOk {
			tt := x.Type().(*types.Tuple)
			fr.tup[x] = []*Term{ex.freshOf(st, "recv", tt.At(0).Type()), f.Fresh("recvok", SBool)}
			return f.Int(0)
		}
		return ex.freshOf(st, "recv", x.Type())
	}
	return ex.freshOf(st, "unop", x.Type())
}

func (fr *Frame) convert(st *State, x *ssa.Convert) *Term {
	ex := fr.ex
	f := ex.f
	v := fr.val(x.X)
	from, to := types.Unalias(x.X.Type()), types.Unalias(x.Type())
	fs, ts := ex.tm.SortOf(from), ex.tm.SortOf(to)
	switch {
	case fs == SInt && ts == SInt && isIntType(from) && isIntType(to):
		return ex.wrap(v, to)
	case fs == SInt && ts == SReal:
		return f.ToReal(v)
	case fs == SReal && ts == SReal:
		return v
	case fs == SReal && ts == SInt:
		// truncation toward zero
		fl := f.ToInt(v)
		tr := f.Ite(f.Or(f.Ge(v, f.Real(big.NewInt(0))), f.Eq(f.ToReal(fl), v)), fl, f.Add(fl, f.Int(1)))
		ex.note("float to integer conversion modelled over the reals (no overflow)")
		return tr
	case fs == SStr && ts == Sort("Slice"):
		r := ex.alloc(st)
		ex.assume(st, f.Gt(r, f.Int(0)))
		n := ex.tm.StrLen(v)
		name := "E.uint8"
		e := ex.comp(st, name, ArraySort(SInt, ArraySort(SInt, SInt)))
		arr := f.App("str.bytes_", ArraySort(SInt, SInt), v)
		ex.setComp(st, name, f.Store(e, r, arr))
		ex.assumes = append(ex.assumes, f.Eq(f.App("str.frombytes_", SStr, arr, f.Int(0), n), v))
		return f.Mk("Slice", r, f.Int(0), n, n)
	case fs == Sort("Slice") && ts == SStr:
		e := ex.comp(st, "E.uint8", ArraySort(SInt, ArraySort(SInt, SInt)))
		arr := f.Select(e, f.Acc("Slice", "ref", v))
		r := f.App("str.frombytes_", SStr, arr, f.Acc("Slice", "off", v), f.Acc("Slice", "len", v))
		ex.assume(st, f.Eq(ex.tm.StrLen(r), f.Acc("Slice", "len", v)))
		return r
	case fs == SInt && ts == SStr:
		return f.App("str.fromrune_", SStr, v)
	case fs == ts:
		return v
	}
	return ex.freshOf(st, "convert", to)
}

func (fr *Frame) indexAddr(st *State, x *ssa.IndexAddr) {
	ex := fr.ex
	f := ex.f
	base := fr.val(x.X)
	idx := fr.val(x.Index)
	xt := types.Unalias(x.X.Type()).Underlying()
	switch t := xt.(type) {
	case *types.Slice:
		if base.sort != Sort("Slice") {
			// a coin set (sdk.Coins) used as a list: element access is not modelled (unconstrained element)
			ex.note("sdk.Coins indexed as a list in %s: element unconstrained", fr.fn.Name())
			p := ex.alloc(st)
			ex.assume(st, f.Gt(p, f.Int(0)))
			ex.store(st, p, t.Elem(), ex.freshOf(st, "coinelem", t.Elem()))
			fr.env[x] = p
			return
		}
		es := ex.tm.SortOf(t.Elem())
		fr.safetyOb(st, x, "index", f.And(f.Ge(idx, f.Int(0)), f.Lt(idx, f.Acc("Slice", "len", base))))
		fr.env[x] = ex.iaddr(es, f.Acc("Slice", "ref", base), f.Add(f.Acc("Slice", "off", base), idx))
		ex.assume(st, f.Gt(fr.env[x], f.Int(0)))
	case *types.Pointer:
		at := types.Unalias(t.Elem()).Underlying().(*types.Array)
		es := ex.tm.SortOf(at.Elem())
		fr.safetyOb(st, x, "index", f.And(f.Ge(idx, f.Int(0)), f.Lt(idx, f.Int(at.Len()))))
		fr.env[x] = ex.iaddr(es, base, idx)
		ex.assume(st, f.Gt(fr.env[x], f.Int(0)))
	default:
		fr.env[x] = ex.freshOf(st, "indexaddr", x.Type())
	}
}

func (fr *Frame) index(st *State, x *ssa.Index) {
	ex := fr.ex
	f := ex.f
	base := fr.val(x.X)
	idx := fr.val(x.Index)
	switch t := types.Unalias(x.X.Type()).Underlying().(type) {
	case *types.Array:
		fr.safetyOb(st, x, "index", f.And(f.Ge(idx, f.Int(0)), f.Lt(idx, f.Int(t.Len()))))
		fr.env[x] = f.Select(base, idx)
	case *types.Basic: // string
		fr.safetyOb(st, x, "index", f.And(f.Ge(idx, f.Int(0)), f.Lt(idx, ex.tm.StrLen(base))))
		r := f.App("str.at_", SInt, base, idx)
		ex.assume(st, f.And(f.Ge(r, f.Int(0)), f.Le(r, f.Int(255))))
		fr.env[x] = r
	default:
		fr.env[x] = ex.freshOf(st, "index", x.Type())
	}
}

func (fr *Frame) sliceOp(st *State, x *ssa.Slice) {
	ex := fr.ex
	f := ex.f
	base := fr.val(x.X)
	var lo, hi, mx *Term
	if x.Low != nil {
		lo = fr.val(x.Low)
	} else {
		lo = f.Int(0)
	}
	switch t := types.Unalias(x.X.Type()).Underlying().(type) {
	case *types.Slice:
		if x.High != nil {
			hi = fr.val(x.High)
		} else {
			hi = f.Acc("Slice", "len", base)
		}
		c := f.Acc("Slice", "cap", base)
		if x.Max != nil {
			mx = fr.val(x.Max)
		} else {
			mx = c
		}
		fr.safetyOb(st, x, "slice", f.And(f.Ge(lo, f.Int(0)), f.Le(lo, hi), f.Le(hi, mx), f.Le(mx, c)))
		fr.env[x] = f.Mk("Slice", f.Acc("Slice", "ref", base), f.Add(f.Acc("Slice", "off", base), lo), f.Sub(hi, lo), f.Sub(mx, lo))
	case *types.Pointer:
		at := types.Unalias(t.Elem()).Underlying().(*types.Array)
		n := f.Int(at.Len())
		if x.High != nil {
			hi = fr.val(x.High)
		} else {
			hi = n
		}
		if x.Max != nil {
			mx = fr.val(x.Max)
		} else {
			mx = n
		}
		fr.safetyOb(st, x, "slice", f.And(f.Ge(lo, f.Int(0)), f.Le(lo, hi), f.Le(hi, mx), f.Le(mx, n)))
		if isInterior(base) {
			ex.note("slice of an array embedded in a struct: contents copied, aliasing lost")
			es := ex.tm.SortOf(at.Elem())
			r := ex.alloc(st)
			name := ex.eComp(at.Elem())
			e := ex.comp(st, name, ArraySort(SInt, ArraySort(SInt, es)))
			ex.setComp(st, name, f.Store(e, r, ex.loadArr(st, base, es)))
			base = r
		}
		fr.env[x] = f.Mk("Slice", base, lo, f.Sub(hi, lo), f.Sub(mx, lo))
	case *types.Basic: // string
		if x.High != nil {
			hi = fr.val(x.High)
		} else {
			hi = ex.tm.StrLen(base)
		}
		fr.safetyOb(st, x, "slice", f.And(f.Ge(lo, f.Int(0)), f.Le(lo, hi), f.Le(hi, ex.tm.StrLen(base))))
		r := f.App("str.sub_", SStr, base, lo, hi)
		ex.assume(st, f.Eq(ex.tm.StrLen(r), f.Sub(hi, lo)))
		if lo.op == "int" && lo.ival.Sign() == 0 && x.High == nil {
			r = base
		}
		fr.env[x] = r
	default:
		fr.env[x] = ex.freshOf(st, "slice", x.Type())
	}
}

// ---------- maps

func (ex *Exec) mapComps(mt *types.Map) (has, val, ln string, ks, vs Sort) {
	ks, vs = ex.tm.SortOf(mt.Key()), ex.tm.SortOf(mt.Elem())
	// keyed by the Go key and element types (not their sorts): maps of different Go types never alias
	id := sanitize(ex.tm.CompName(mt.Key())) + "." + sanitize(ex.tm.CompName(mt.Elem()))
	return "MH." + id, "MV." + id, "ML." + id, ks, vs
}

func (ex *Exec) mapInit(st *State, r *Term, mt *types.Map) {
	f := ex.f
	hn, vn, ln, ks, vs := ex.mapComps(mt)
	h := ex.comp(st, hn, ArraySort(SInt, ArraySort(ks, SBool)))
	ex.setComp(st, hn, f.Store(h, r, f.ConstArray(ArraySort(ks, SBool), f.False())))
	v := ex.comp(st, vn, ArraySort(SInt, ArraySort(ks, vs)))
	ex.setComp(st, vn, f.Store(v, r, f.ConstArray(ArraySort(ks, vs), ex.tm.Zero(mt.Elem()))))
	l := ex.comp(st, ln, ArraySort(SInt, SInt))
	ex.setComp(st, ln, f.Store(l, r, f.Int(0)))
}

func (ex *Exec) mapHas(st *State, m, k *Term, mt *types.Map) *Term {
	hn, _, _, ks, _ := ex.mapComps(mt)
	return ex.f.Select(ex.f.Select(ex.comp(st, hn, ArraySort(SInt, ArraySort(ks, SBool))), m), k)
}

func (ex *Exec) mapVal(st *State, m, k *Term, mt *types.Map) *Term {
	_, vn, _, ks, vs := ex.mapComps(mt)
	return ex.f.Select(ex.f.Select(ex.comp(st, vn, ArraySort(SInt, ArraySort(ks, vs))), m), k)
}

func (ex *Exec) mapLen(st *State, m *Term, mt *types.Map) *Term {
	_, _, ln, _, _ := ex.mapComps(mt)
	return ex.f.Select(ex.comp(st, ln, ArraySort(SInt, SInt)), m)
}

func (fr *Frame) lookup(st *State, x *ssa.Lookup) {
	ex := fr.ex
	f := ex.f
	m := fr.val(x.X)
	k := fr.val(x.Index)
	mt, ok := types.Unalias(x.X.Type()).Underlying().(*types.Map)
	if !ok { // string index
		r := f.App("str.at_", SInt, m, k)
		ex.assume(st, f.And(f.Ge(r, f.Int(0)), f.Le(r, f.Int(255))))
		fr.env[x] = r
		return
	}
	if k.sort != ex.tm.SortOf(mt.Key()) {
		k = ex.freshOf(st, "mapkey", mt.Key())
	}
	has := f.And(f.Neq(m, f.Int(0)), ex.mapHas(st, m, k, mt))
	raw := ex.mapVal(st, m, k, mt)
	ex.assume(st, f.Implies(has, f.And(ex.tm.WellTyped(raw, mt.Elem(), 1), ex.loadedRefFacts(raw, mt.Elem(), 1))))
	v := f.Ite(has, raw, ex.tm.Zero(mt.Elem()))
	if x.CommaOk {
		fr.tup[x] = []*Term{v, has}
	} else {
		fr.env[x] = v
	}
}

func (fr *Frame) mapUpdate(st *State, x *ssa.MapUpdate) {
	ex := fr.ex
	m := fr.val(x.Map)
	k := fr.val(x.Key)
	v := fr.val(x.Value)
	mt := types.Unalias(x.Map.Type()).Underlying().(*types.Map)
	fr.safetyOb(st, x, "nilmap", ex.f.Neq(m, ex.f.Int(0)))
	ex.mapStore(st, m, k, v, mt)
}

func (ex *Exec) mapStore(st *State, m, k, v *Term, mt *types.Map) {
	f := ex.f
	hn, vn, ln, ks, vs := ex.mapComps(mt)
	if k.sort != ks || v.sort != vs {
		ex.note("map update with mismatched sorts; map havocked")
		ex.havocComps(st, []string{hn, vn, ln})
		return
	}
	h := ex.comp(st, hn, ArraySort(SInt, ArraySort(ks, SBool)))
	had := f.Select(f.Select(h, m), k)
	ex.setComp(st, hn, f.Store(h, m, f.Store(f.Select(h, m), k, f.True())))
	vv := ex.comp(st, vn, ArraySort(SInt, ArraySort(ks, vs)))
	ex.setComp(st, vn, f.Store(vv, m, f.Store(f.Select(vv, m), k, v)))
	l := ex.comp(st, ln, ArraySort(SInt, SInt))
	ex.setComp(st, ln, f.Store(l, m, f.Ite(had, f.Select(l, m), f.Add(f.Select(l, m), f.Int(1)))))
}

func (ex *Exec) mapDelete(st *State, m, k *Term, mt *types.Map) {
	f := ex.f
	hn, _, ln, ks, _ := ex.mapComps(mt)
	h := ex.comp(st, hn, ArraySort(SInt, ArraySort(ks, SBool)))
	had := f.Select(f.Select(h, m), k)
	ex.setComp(st, hn, f.Store(h, m, f.Store(f.Select(h, m), k, f.False())))
	l := ex.comp(st, ln, ArraySort(SInt, SInt))
	ex.setComp(st, ln, f.Store(l, m, f.Ite(had, f.Sub(f.Select(l, m), f.Int(1)), f.Select(l, m))))
}

// ---------- range over maps / strings

func (fr *Frame) rangeInit(st *State, x *ssa.Range) {
	ex := fr.ex
	f := ex.f
	id := fmt.Sprintf("IT.%s.%s", sanitize(fr.key()), x.Name())
	if mt, ok := types.Unalias(x.X.Type()).Underlying().(*types.Map); ok {
		ks := ex.tm.SortOf(mt.Key())
		ex.setComp(st, id, f.ConstArray(ArraySort(ks, SBool), f.False()))
	} else {
		ex.setComp(st, id, f.ConstArray(ArraySort(SInt, SBool), f.False()))
	}
	fr.env[x] = fr.val(x.X)
}

func (fr *Frame) rangeNext(st *State, x *ssa.Next) {
	ex := fr.ex
	f := ex.f
	rng := x.Iter.(*ssa.Range)
	id := fmt.Sprintf("IT.%s.%s", sanitize(fr.key()), rng.Name())
	tt := x.Type().(*types.Tuple)
	if x.IsString {
		ex.note("range over string: abstract iteration")
		fr.tup[x] = []*Term{f.Fresh("strnext.ok", SBool), ex.freshOf(st, "strnext.i", tt.At(1).Type()), ex.freshOf(st, "strnext.r", tt.At(2).Type())}
		return
	}
	mt := types.Unalias(rng.X.Type()).Underlying().(*types.Map)
	m := fr.val(rng.X)
	ks := ex.tm.SortOf(mt.Key())
	visited := ex.comp(st, id, ArraySort(ks, SBool))
	k := ex.freshOf(st, "mapkey", mt.Key())
	ok := f.Fresh("mapnext.ok", SBool)
	has := ex.mapHas(st, m, k, mt)
	ex.assume(st, f.Implies(ok, f.And(f.Neq(m, f.Int(0)), has, f.Not(f.Select(visited, k)))))
	// exhaustion: when the iteration ends every present key has been visited
	bk := f.Bound("k", ks)
	hn, _, _, _, _ := ex.mapComps(mt)
	hasArr := f.Select(ex.comp(st, hn, ArraySort(SInt, ArraySort(ks, SBool))), m)
	ex.assume(st, f.Implies(f.And(f.Not(ok), f.Neq(m, f.Int(0))), f.Forall([]*Term{bk}, f.Implies(f.Select(hasArr, bk), f.Select(visited, bk)))))
	ex.setComp(st, id, f.Ite(ok, f.Store(visited, k, f.True()), visited))
	raw := ex.mapVal(st, m, k, mt)
	ex.assume(st, f.Implies(ok, f.And(ex.tm.WellTyped(raw, mt.Elem(), 1), ex.loadedRefFacts(raw, mt.Elem(), 1))))
	fr.tup[x] = []*Term{ok, k, raw}
}

// ---------- deferred calls

func (fr *Frame) runDeferred(st *State, d deferred) {
	ex := fr.ex
	f := ex.f
	// executed only if it was pushed on this path
	if d.guard.IsTrue() || ex.impliesSyntactic(st.pc, d.guard) {
		fr.callWith(st, d.call, d.instr, d.args, d.fnval)
		return
	}
	s1 := st.clone()
	s1.pc = f.And(st.pc, d.guard)
	fr.callWith(s1, d.call, d.instr, d.args, d.fnval)
	s2 := st.clone()
	s2.pc = f.And(st.pc, f.Not(d.guard))
	m := ex.merge([]*State{s2, s1})
	m.pc = st.pc
	*st = *m
}

func (ex *Exec) impliesSyntactic(pc, g *Term) bool {
	if pc == g {
		return true
	}
	gs := []*Term{g}
	if g.op == "and" {
		gs = g.args
	}
	have := map[*Term]bool{pc: true}
	if pc.op == "and" {
		for _, a := range pc.args {
			have[a] = true
		}
	}
	for _, x := range gs {
		if !have[x] {
			return false
		}
	}
	return true
}
