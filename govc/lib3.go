package main

// Trusted specifications of cosmossdk.io/math (Int, LegacyDec) and cosmos-sdk Coin / Coins / DecCoins.
// Int: exact integers (the 256-bit overflow panic is not modelled: assumption "no 256-bit overflow").
// LegacyDec: integers scaled by 10^18; Mul/Quo round half to even on the exact result, the *Truncate
// variants and QuoInt truncate toward zero. Coins: amount per denomination.

import (
	"go/types"
	"math/big"

	"golang.org/x/tools/go/ssa"
)

var decOne = new(big.Int).Exp(big.NewInt(10), big.NewInt(18), nil)

func (ex *Exec) decP() *Term { return ex.f.BigInt(decOne) }

// truncQ: truncated division (toward zero) of mathematical integers, b != 0
func (ex *Exec) truncQ(a, b *Term) *Term { return ex.truncDiv(a, b) }

// roundHalfEven(x / d) for d > 0
func (ex *Exec) roundHalfEvenDiv(x, d *Term) *Term {
	f := ex.f
	pos := func(x *Term) *Term {
		q := f.Div(x, d)
		r := f.Mod(x, d)
		twice := f.Mul(f.Int(2), r)
		up := f.Add(q, f.Int(1))
		return f.Ite(f.Lt(twice, d), q, f.Ite(f.Gt(twice, d), up, f.Ite(f.Eq(f.Mod(q, f.Int(2)), f.Int(0)), q, up)))
	}
	if x.op == "int" && d.op == "int" {
		// constant fold through the same definition
	}
	return f.Ite(f.Ge(x, f.Int(0)), pos(x), f.Neg(pos(f.Neg(x))))
}

func (ex *Exec) panicsUnless(fr *Frame, st *State, c *ssa.CallCommon, reason string, cond *Term) {
	// library panic: a safety obligation when safety checking is on; the continuing path assumes the condition
	if fr.safety {
		var in ssa.Instruction
		_ = in
		root := fr
		for root.parent != nil {
			root = root.parent
		}
		n := 0
		prefix := root.key() + "/safety:" + reason + "@" + shortFnName(fr.fn)
		for _, o := range ex.obligs {
			if len(o.Name) > len(prefix) && o.Name[:len(prefix)] == prefix {
				n++
			}
		}
		ex.addOblig(&Obligation{Name: prefix + "#" + itoa(n), Kind: "safety", Fn: root.key(), Goal: cond, PC: st.pc})
	}
	st.pc = ex.f.And(st.pc, cond)
}

func itoa(n int) string { return big.NewInt(int64(n)).String() }

type simple func(ex *Exec, a []*Term) *Term

func regSimple(name string, fn simple) {
	reg(name, func(fr *Frame, st *State, c *ssa.CallCommon, args []*Term) ([]*Term, bool) {
		return []*Term{fn(fr.ex, args)}, true
	})
}

func init() {
	I := "(cosmossdk.io/math.Int)."
	M := "cosmossdk.io/math."
	regSimple(I+"Add", func(ex *Exec, a []*Term) *Term { return ex.f.Add(a[0], a[1]) })
	regSimple(I+"AddRaw", func(ex *Exec, a []*Term) *Term { return ex.f.Add(a[0], a[1]) })
	regSimple(I+"Sub", func(ex *Exec, a []*Term) *Term { return ex.f.Sub(a[0], a[1]) })
	regSimple(I+"SubRaw", func(ex *Exec, a []*Term) *Term { return ex.f.Sub(a[0], a[1]) })
	regSimple(I+"Mul", func(ex *Exec, a []*Term) *Term { return ex.f.Mul(a[0], a[1]) })
	regSimple(I+"MulRaw", func(ex *Exec, a []*Term) *Term { return ex.f.Mul(a[0], a[1]) })
	regSimple(I+"Neg", func(ex *Exec, a []*Term) *Term { return ex.f.Neg(a[0]) })
	regSimple(I+"Abs", func(ex *Exec, a []*Term) *Term { return ex.f.Ite(ex.f.Ge(a[0], ex.f.Int(0)), a[0], ex.f.Neg(a[0])) })
	regSimple(I+"IsZero", func(ex *Exec, a []*Term) *Term { return ex.f.Eq(a[0], ex.f.Int(0)) })
	regSimple(I+"IsNegative", func(ex *Exec, a []*Term) *Term { return ex.f.Lt(a[0], ex.f.Int(0)) })
	regSimple(I+"IsPositive", func(ex *Exec, a []*Term) *Term { return ex.f.Gt(a[0], ex.f.Int(0)) })
	regSimple(I+"IsNil", func(ex *Exec, a []*Term) *Term { return ex.f.False() })
	regSimple(I+"Sign", func(ex *Exec, a []*Term) *Term {
		return ex.f.Ite(ex.f.Gt(a[0], ex.f.Int(0)), ex.f.Int(1), ex.f.Ite(ex.f.Lt(a[0], ex.f.Int(0)), ex.f.Int(-1), ex.f.Int(0)))
	})
	regSimple(I+"GT", func(ex *Exec, a []*Term) *Term { return ex.f.Gt(a[0], a[1]) })
	regSimple(I+"GTE", func(ex *Exec, a []*Term) *Term { return ex.f.Ge(a[0], a[1]) })
	regSimple(I+"LT", func(ex *Exec, a []*Term) *Term { return ex.f.Lt(a[0], a[1]) })
	regSimple(I+"LTE", func(ex *Exec, a []*Term) *Term { return ex.f.Le(a[0], a[1]) })
	regSimple(I+"Equal", func(ex *Exec, a []*Term) *Term { return ex.f.Eq(a[0], a[1]) })
	regSimple(I+"ToLegacyDec", func(ex *Exec, a []*Term) *Term { return ex.f.Mul(a[0], ex.decP()) })
	regSimple(I+"BigInt", func(ex *Exec, a []*Term) *Term { return a[0] })
	regSimple(I+"IsInt64", func(ex *Exec, a []*Term) *Term {
		return ex.f.And(ex.f.Ge(a[0], ex.f.BigInt(new(big.Int).Neg(new(big.Int).Lsh(big.NewInt(1), 63)))), ex.f.Lt(a[0], ex.f.BigInt(new(big.Int).Lsh(big.NewInt(1), 63))))
	})
	regSimple(I+"IsUint64", func(ex *Exec, a []*Term) *Term {
		return ex.f.And(ex.f.Ge(a[0], ex.f.Int(0)), ex.f.Lt(a[0], ex.f.BigInt(pow64)))
	})
	quo := func(fr *Frame, st *State, c *ssa.CallCommon, a []*Term) ([]*Term, bool) {
		ex := fr.ex
		ex.panicsUnless(fr, st, c, "Int.Quo-by-zero", ex.f.Neq(a[1], ex.f.Int(0)))
		return []*Term{ex.truncQ(a[0], a[1])}, true
	}
	reg(I+"Quo", quo)
	reg(I+"QuoRaw", quo)
	mod := func(fr *Frame, st *State, c *ssa.CallCommon, a []*Term) ([]*Term, bool) {
		ex := fr.ex
		ex.panicsUnless(fr, st, c, "Int.Mod-by-zero", ex.f.Neq(a[1], ex.f.Int(0)))
		return []*Term{ex.truncRem(a[0], a[1])}, true
	}
	reg(I+"Mod", mod)
	reg(I+"ModRaw", mod)
	reg(I+"Int64", func(fr *Frame, st *State, c *ssa.CallCommon, a []*Term) ([]*Term, bool) {
		ex := fr.ex
		f := ex.f
		ex.panicsUnless(fr, st, c, "Int.Int64-out-of-range", f.And(f.Ge(a[0], f.BigInt(new(big.Int).Neg(new(big.Int).Lsh(big.NewInt(1), 63)))), f.Lt(a[0], f.BigInt(new(big.Int).Lsh(big.NewInt(1), 63)))))
		return []*Term{a[0]}, true
	})
	reg(I+"Uint64", func(fr *Frame, st *State, c *ssa.CallCommon, a []*Term) ([]*Term, bool) {
		ex := fr.ex
		f := ex.f
		ex.panicsUnless(fr, st, c, "Int.Uint64-out-of-range", f.And(f.Ge(a[0], f.Int(0)), f.Lt(a[0], f.BigInt(pow64))))
		return []*Term{a[0]}, true
	})
	for _, n := range []string{"NewInt", "NewIntFromUint64", "NewIntFromBigInt", "NewUint"} {
		regSimple(M+n, func(ex *Exec, a []*Term) *Term { return a[0] })
	}
	regSimple(M+"ZeroInt", func(ex *Exec, a []*Term) *Term { return ex.f.Int(0) })
	regSimple(M+"OneInt", func(ex *Exec, a []*Term) *Term { return ex.f.Int(1) })
	regSimple(M+"MinInt", func(ex *Exec, a []*Term) *Term { return ex.f.Ite(ex.f.Le(a[0], a[1]), a[0], a[1]) })
	regSimple(M+"MaxInt", func(ex *Exec, a []*Term) *Term { return ex.f.Ite(ex.f.Ge(a[0], a[1]), a[0], a[1]) })

	// ---- LegacyDec
	D := "(cosmossdk.io/math.LegacyDec)."
	regSimple(D+"Add", func(ex *Exec, a []*Term) *Term { return ex.f.Add(a[0], a[1]) })
	regSimple(D+"Sub", func(ex *Exec, a []*Term) *Term { return ex.f.Sub(a[0], a[1]) })
	regSimple(D+"Neg", func(ex *Exec, a []*Term) *Term { return ex.f.Neg(a[0]) })
	regSimple(D+"Abs", func(ex *Exec, a []*Term) *Term { return ex.f.Ite(ex.f.Ge(a[0], ex.f.Int(0)), a[0], ex.f.Neg(a[0])) })
	regSimple(D+"Mul", func(ex *Exec, a []*Term) *Term { return ex.roundHalfEvenDiv(ex.f.Mul(a[0], a[1]), ex.decP()) })
	regSimple(D+"MulTruncate", func(ex *Exec, a []*Term) *Term { return ex.truncQ(ex.f.Mul(a[0], a[1]), ex.decP()) })
	regSimple(D+"MulInt", func(ex *Exec, a []*Term) *Term { return ex.f.Mul(a[0], a[1]) })
	regSimple(D+"MulInt64", func(ex *Exec, a []*Term) *Term { return ex.f.Mul(a[0], a[1]) })
	dquo := func(round bool) LibFn {
		return func(fr *Frame, st *State, c *ssa.CallCommon, a []*Term) ([]*Term, bool) {
			ex := fr.ex
			f := ex.f
			ex.panicsUnless(fr, st, c, "Dec.Quo-by-zero", f.Neq(a[1], f.Int(0)))
			num := f.Mul(a[0], ex.decP())
			if !round {
				return []*Term{ex.truncQ(num, a[1])}, true
			}
			// round half to even of num / a[1] for either sign of the divisor
			pos := ex.roundHalfEvenDiv(num, a[1])
			neg := ex.roundHalfEvenDiv(f.Neg(num), f.Neg(a[1]))
			return []*Term{f.Ite(f.Gt(a[1], f.Int(0)), pos, neg)}, true
		}
	}
	reg(D+"Quo", dquo(true))
	reg(D+"QuoTruncate", dquo(false))
	dquoInt := func(fr *Frame, st *State, c *ssa.CallCommon, a []*Term) ([]*Term, bool) {
		ex := fr.ex
		ex.panicsUnless(fr, st, c, "Dec.QuoInt-by-zero", ex.f.Neq(a[1], ex.f.Int(0)))
		return []*Term{ex.truncQ(a[0], a[1])}, true
	}
	reg(D+"QuoInt", dquoInt)
	reg(D+"QuoInt64", dquoInt)
	regSimple(D+"TruncateInt", func(ex *Exec, a []*Term) *Term { return ex.truncQ(a[0], ex.decP()) })
	regSimple(D+"TruncateInt64", func(ex *Exec, a []*Term) *Term { return ex.truncQ(a[0], ex.decP()) })
	regSimple(D+"TruncateDec", func(ex *Exec, a []*Term) *Term { return ex.f.Mul(ex.truncQ(a[0], ex.decP()), ex.decP()) })
	regSimple(D+"RoundInt", func(ex *Exec, a []*Term) *Term { return ex.roundHalfEvenDiv(a[0], ex.decP()) })
	reg(D+"RoundInt64", func(fr *Frame, st *State, c *ssa.CallCommon, a []*Term) ([]*Term, bool) {
		ex := fr.ex
		f := ex.f
		r := ex.roundHalfEvenDiv(a[0], ex.decP())
		ex.panicsUnless(fr, st, c, "Dec.RoundInt64-out-of-range", f.And(f.Ge(r, f.BigInt(new(big.Int).Neg(new(big.Int).Lsh(big.NewInt(1), 63)))), f.Lt(r, f.BigInt(new(big.Int).Lsh(big.NewInt(1), 63)))))
		return []*Term{r}, true
	})
	regSimple(D+"Ceil", func(ex *Exec, a []*Term) *Term {
		f := ex.f
		q := f.Div(a[0], ex.decP()) // floor
		return f.Mul(f.Ite(f.Eq(f.Mod(a[0], ex.decP()), f.Int(0)), q, f.Add(q, f.Int(1))), ex.decP())
	})
	regSimple(D+"IsZero", func(ex *Exec, a []*Term) *Term { return ex.f.Eq(a[0], ex.f.Int(0)) })
	regSimple(D+"IsNil", func(ex *Exec, a []*Term) *Term { return ex.f.False() })
	regSimple(D+"IsNegative", func(ex *Exec, a []*Term) *Term { return ex.f.Lt(a[0], ex.f.Int(0)) })
	regSimple(D+"IsPositive", func(ex *Exec, a []*Term) *Term { return ex.f.Gt(a[0], ex.f.Int(0)) })
	regSimple(D+"GT", func(ex *Exec, a []*Term) *Term { return ex.f.Gt(a[0], a[1]) })
	regSimple(D+"GTE", func(ex *Exec, a []*Term) *Term { return ex.f.Ge(a[0], a[1]) })
	regSimple(D+"LT", func(ex *Exec, a []*Term) *Term { return ex.f.Lt(a[0], a[1]) })
	regSimple(D+"LTE", func(ex *Exec, a []*Term) *Term { return ex.f.Le(a[0], a[1]) })
	regSimple(D+"Equal", func(ex *Exec, a []*Term) *Term { return ex.f.Eq(a[0], a[1]) })
	regSimple(D+"IsInteger", func(ex *Exec, a []*Term) *Term { return ex.f.Eq(ex.f.Mod(a[0], ex.decP()), ex.f.Int(0)) })
	regSimple(M+"LegacyZeroDec", func(ex *Exec, a []*Term) *Term { return ex.f.Int(0) })
	regSimple(M+"LegacyOneDec", func(ex *Exec, a []*Term) *Term { return ex.decP() })
	regSimple(M+"LegacySmallestDec", func(ex *Exec, a []*Term) *Term { return ex.f.Int(1) })
	regSimple(M+"LegacyNewDec", func(ex *Exec, a []*Term) *Term { return ex.f.Mul(a[0], ex.decP()) })
	regSimple(M+"LegacyNewDecFromInt", func(ex *Exec, a []*Term) *Term { return ex.f.Mul(a[0], ex.decP()) })
	regSimple(M+"LegacyNewDecFromBigInt", func(ex *Exec, a []*Term) *Term { return ex.f.Mul(a[0], ex.decP()) })
	regSimple(M+"LegacyMinDec", func(ex *Exec, a []*Term) *Term { return ex.f.Ite(ex.f.Le(a[0], a[1]), a[0], a[1]) })
	regSimple(M+"LegacyMaxDec", func(ex *Exec, a []*Term) *Term { return ex.f.Ite(ex.f.Ge(a[0], a[1]), a[0], a[1]) })
	withPrec := func(fr *Frame, st *State, c *ssa.CallCommon, a []*Term) ([]*Term, bool) {
		ex := fr.ex
		if a[1].op != "int" || !a[1].ival.IsInt64() || a[1].ival.Int64() < 0 || a[1].ival.Int64() > 18 {
			return nil, false
		}
		scale := new(big.Int).Exp(big.NewInt(10), big.NewInt(18-a[1].ival.Int64()), nil)
		return []*Term{ex.f.Mul(a[0], ex.f.BigInt(scale))}, true
	}
	reg(M+"LegacyNewDecWithPrec", withPrec)
	reg(M+"LegacyNewDecFromIntWithPrec", withPrec)
	reg(M+"LegacyMustNewDecFromStr", func(fr *Frame, st *State, c *ssa.CallCommon, a []*Term) ([]*Term, bool) {
		if a[0].op != "strlit" {
			return nil, false
		}
		r, ok := new(big.Rat).SetString(a[0].name)
		if !ok {
			return nil, false
		}
		r.Mul(r, new(big.Rat).SetInt(decOne))
		if !r.IsInt() {
			return nil, false
		}
		return []*Term{fr.ex.f.BigInt(r.Num())}, true
	})

	// ---- Coin (a plain struct {Denom, Amount}) and Coins / DecCoins (amount per denomination)
	T := "github.com/cosmos/cosmos-sdk/types."
	coinDT := "cosmos_sdk_types.Coin"
	decCoinDT := "cosmos_sdk_types.DecCoin"
	mkCoin := func(ex *Exec, dt string, d, amt *Term) *Term {
		ex.tm.SortOf(ex.W.coinType(dt))
		return ex.f.Mk(dt, d, amt)
	}
	reg(T+"NewCoin", func(fr *Frame, st *State, c *ssa.CallCommon, a []*Term) ([]*Term, bool) {
		ex := fr.ex
		ex.panicsUnless(fr, st, c, "NewCoin-negative", ex.f.Ge(a[1], ex.f.Int(0)))
		return []*Term{mkCoin(ex, coinDT, a[0], a[1])}, true
	})
	reg(T+"NewInt64Coin", func(fr *Frame, st *State, c *ssa.CallCommon, a []*Term) ([]*Term, bool) {
		ex := fr.ex
		ex.panicsUnless(fr, st, c, "NewCoin-negative", ex.f.Ge(a[1], ex.f.Int(0)))
		return []*Term{mkCoin(ex, coinDT, a[0], a[1])}, true
	})
	C := "(" + T + "Coin)."
	den := func(ex *Exec, x *Term) *Term { return ex.f.Acc(coinDT, "Denom", x) }
	amt := func(ex *Exec, x *Term) *Term { return ex.f.Acc(coinDT, "Amount", x) }
	regSimple(C+"IsZero", func(ex *Exec, a []*Term) *Term { return ex.f.Eq(amt(ex, a[0]), ex.f.Int(0)) })
	regSimple(C+"IsPositive", func(ex *Exec, a []*Term) *Term { return ex.f.Gt(amt(ex, a[0]), ex.f.Int(0)) })
	regSimple(C+"IsNegative", func(ex *Exec, a []*Term) *Term { return ex.f.Lt(amt(ex, a[0]), ex.f.Int(0)) })
	regSimple(C+"IsNil", func(ex *Exec, a []*Term) *Term { return ex.f.False() })
	regSimple(C+"GetDenom", func(ex *Exec, a []*Term) *Term { return den(ex, a[0]) })
	regSimple(C+"AddAmount", func(ex *Exec, a []*Term) *Term { return ex.f.Mk(coinDT, den(ex, a[0]), ex.f.Add(amt(ex, a[0]), a[1])) })
	reg(C+"SubAmount", func(fr *Frame, st *State, c *ssa.CallCommon, a []*Term) ([]*Term, bool) {
		ex := fr.ex
		r := ex.f.Sub(amt(ex, a[0]), a[1])
		ex.panicsUnless(fr, st, c, "Coin.SubAmount-negative", ex.f.Ge(r, ex.f.Int(0)))
		return []*Term{ex.f.Mk(coinDT, den(ex, a[0]), r)}, true
	})
	reg(C+"Add", func(fr *Frame, st *State, c *ssa.CallCommon, a []*Term) ([]*Term, bool) {
		ex := fr.ex
		ex.panicsUnless(fr, st, c, "Coin.Add-denom-mismatch", ex.f.Eq(den(ex, a[0]), den(ex, a[1])))
		return []*Term{ex.f.Mk(coinDT, den(ex, a[0]), ex.f.Add(amt(ex, a[0]), amt(ex, a[1])))}, true
	})
	reg(C+"Sub", func(fr *Frame, st *State, c *ssa.CallCommon, a []*Term) ([]*Term, bool) {
		ex := fr.ex
		r := ex.f.Sub(amt(ex, a[0]), amt(ex, a[1]))
		ex.panicsUnless(fr, st, c, "Coin.Sub-negative-or-denom-mismatch", ex.f.And(ex.f.Eq(den(ex, a[0]), den(ex, a[1])), ex.f.Ge(r, ex.f.Int(0))))
		return []*Term{ex.f.Mk(coinDT, den(ex, a[0]), r)}, true
	})
	reg(C+"IsGTE", func(fr *Frame, st *State, c *ssa.CallCommon, a []*Term) ([]*Term, bool) {
		ex := fr.ex
		ex.panicsUnless(fr, st, c, "Coin.IsGTE-denom-mismatch", ex.f.Eq(den(ex, a[0]), den(ex, a[1])))
		return []*Term{ex.f.Ge(amt(ex, a[0]), amt(ex, a[1]))}, true
	})
	reg(C+"IsLT", func(fr *Frame, st *State, c *ssa.CallCommon, a []*Term) ([]*Term, bool) {
		ex := fr.ex
		ex.panicsUnless(fr, st, c, "Coin.IsLT-denom-mismatch", ex.f.Eq(den(ex, a[0]), den(ex, a[1])))
		return []*Term{ex.f.Lt(amt(ex, a[0]), amt(ex, a[1]))}, true
	})
	regSimple(C+"IsEqual", func(ex *Exec, a []*Term) *Term { return ex.f.Eq(a[0], a[1]) })
	_ = decCoinDT

	cs := ArraySort(SStr, SInt)
	// pointwise operations as functions with defining axioms
	ax2 := func(ex *Exec, name, body string) {
		ex.f.axioms[name] = "(assert (forall ((a " + string(cs) + ") (b " + string(cs) + ") (d Str)) (! (= (select (" + name + " a b) d) " + body + ") :pattern ((select (" + name + " a b) d)))))"
	}
	coinsAdd := func(ex *Exec, a, b *Term) *Term {
		ax2(ex, "coins.add", "(+ (select a d) (select b d))")
		return ex.f.App("coins.add", cs, a, b)
	}
	coinsSub := func(ex *Exec, a, b *Term) *Term {
		ax2(ex, "coins.sub", "(- (select a d) (select b d))")
		return ex.f.App("coins.sub", cs, a, b)
	}
	// quantified directly over the denomination, so that reads are pushed through pointwise operations
	allGE := func(ex *Exec, a, b *Term) *Term {
		d := ex.f.Bound("d", SStr)
		return ex.f.Forall([]*Term{d}, ex.f.Ge(ex.f.Select(a, d), ex.f.Select(b, d)))
	}
	isZero := func(ex *Exec, a *Term) *Term {
		d := ex.f.Bound("d", SStr)
		return ex.f.Forall([]*Term{d}, ex.f.Eq(ex.f.Select(a, d), ex.f.Int(0)))
	}
	anyGT := func(ex *Exec, a, b *Term) *Term {
		d := ex.f.Bound("d", SStr)
		return ex.f.Exists([]*Term{d}, ex.f.And(ex.f.Gt(ex.f.Select(b, d), ex.f.Int(0)), ex.f.Gt(ex.f.Select(a, d), ex.f.Select(b, d))))
	}
	scale := func(ex *Exec, name, body string, a, x *Term) *Term {
		ex.f.axioms[name] = "(assert (forall ((a " + string(cs) + ") (x Int) (d Str)) (! (= (select (" + name + " a x) d) " + body + ") :pattern ((select (" + name + " a x) d)))))"
		return ex.f.App(name, cs, a, x)
	}
	// the variadic argument of NewCoins/Add/Sub is either a literal list of coins or a Coins value
	fold := func(fr *Frame, st *State, c *ssa.CallCommon, base *Term, arg *Term, sign int64) (*Term, bool) {
		ex := fr.ex
		f := ex.f
		if arg.sort == cs {
			if sign > 0 {
				return coinsAdd(ex, base, arg), true
			}
			return coinsSub(ex, base, arg), true
		}
		if arg.sort != Sort("Slice") {
			return nil, false
		}
		n := f.Acc("Slice", "len", arg)
		if n.op != "int" || !n.ival.IsInt64() || n.ival.Int64() > 8 {
			return nil, false
		}
		ex.tm.SortOf(ex.W.coinType(coinDT))
		e := ex.comp(st, "E."+sanitize(coinDT), ArraySort(SInt, ArraySort(SInt, Sort(coinDT))))
		arr := f.Select(e, f.Acc("Slice", "ref", arg))
		off := f.Acc("Slice", "off", arg)
		r := base
		for i := int64(0); i < n.ival.Int64(); i++ {
			coin := f.Select(arr, f.Add(off, f.Int(i)))
			d := f.Acc(coinDT, "Denom", coin)
			delta := f.Acc(coinDT, "Amount", coin)
			if sign < 0 {
				delta = f.Neg(delta)
			}
			r = f.Store(r, d, f.Add(f.Select(r, d), delta))
		}
		return r, true
	}
	reg(T+"NewCoins", func(fr *Frame, st *State, c *ssa.CallCommon, a []*Term) ([]*Term, bool) {
		ex := fr.ex
		r, ok := fold(fr, st, c, ex.f.ConstArray(cs, ex.f.Int(0)), a[0], 1)
		if !ok {
			return nil, false
		}
		return []*Term{r}, true
	})
	S := "(" + T + "Coins)."
	reg(S+"Add", func(fr *Frame, st *State, c *ssa.CallCommon, a []*Term) ([]*Term, bool) {
		r, ok := fold(fr, st, c, a[0], a[1], 1)
		if !ok {
			return nil, false
		}
		return []*Term{r}, true
	})
	reg(S+"Sub", func(fr *Frame, st *State, c *ssa.CallCommon, a []*Term) ([]*Term, bool) {
		ex := fr.ex
		r, ok := fold(fr, st, c, a[0], a[1], -1)
		if !ok {
			return nil, false
		}
		ex.panicsUnless(fr, st, c, "Coins.Sub-negative", allGE(ex, r, ex.f.ConstArray(cs, ex.f.Int(0))))
		return []*Term{r}, true
	})
	reg(S+"SafeSub", func(fr *Frame, st *State, c *ssa.CallCommon, a []*Term) ([]*Term, bool) {
		ex := fr.ex
		r, ok := fold(fr, st, c, a[0], a[1], -1)
		if !ok {
			return nil, false
		}
		return []*Term{r, ex.f.Not(allGE(ex, r, ex.f.ConstArray(cs, ex.f.Int(0))))}, true
	})
	reg(S+"AmountOf", func(fr *Frame, st *State, c *ssa.CallCommon, a []*Term) ([]*Term, bool) {
		ex := fr.ex
		v := ex.f.Select(a[0], a[1])
		return []*Term{v}, true
	})
	regSimple(S+"AmountOfNoDenomValidation", func(ex *Exec, a []*Term) *Term { return ex.f.Select(a[0], a[1]) })
	regSimple(S+"IsZero", func(ex *Exec, a []*Term) *Term { return isZero(ex, a[0]) })
	regSimple(S+"Empty", func(ex *Exec, a []*Term) *Term { return isZero(ex, a[0]) })
	regSimple(S+"IsAllGTE", func(ex *Exec, a []*Term) *Term { return allGE(ex, a[0], a[1]) })
	regSimple(S+"IsAllLTE", func(ex *Exec, a []*Term) *Term { return allGE(ex, a[1], a[0]) })
	regSimple(S+"IsAnyGT", func(ex *Exec, a []*Term) *Term { return anyGT(ex, a[0], a[1]) })
	regSimple(S+"IsEqual", func(ex *Exec, a []*Term) *Term { return ex.f.Eq(a[0], a[1]) })
	regSimple(S+"IsAnyNegative", func(ex *Exec, a []*Term) *Term { return ex.f.Not(allGE(ex, a[0], ex.f.ConstArray(cs, ex.f.Int(0)))) })
	regSimple(S+"IsAllPositive", func(ex *Exec, a []*Term) *Term {
		return ex.f.And(allGE(ex, a[0], ex.f.ConstArray(cs, ex.f.Int(0))), ex.f.Not(isZero(ex, a[0])))
	})
	regSimple(S+"MulInt", func(ex *Exec, a []*Term) *Term { return scale(ex, "coins.mulint", "(* (select a d) x)", a[0], a[1]) })
	reg(S+"QuoInt", func(fr *Frame, st *State, c *ssa.CallCommon, a []*Term) ([]*Term, bool) {
		ex := fr.ex
		ex.panicsUnless(fr, st, c, "Coins.QuoInt-by-zero", ex.f.Neq(a[1], ex.f.Int(0)))
		// amounts are non-negative, the divisor is positive in every use: floor division
		return []*Term{scale(ex, "coins.quoint", "(div (select a d) x)", a[0], a[1])}, true
	})
	regSimple(S+"Sort", func(ex *Exec, a []*Term) *Term { return a[0] })

	// DecCoins
	DS := "(" + T + "DecCoins)."
	regSimple(T+"NewDecCoinsFromCoins", func(ex *Exec, a []*Term) *Term {
		if a[0].sort == cs {
			return scale(ex, "coins.mulint", "(* (select a d) x)", a[0], ex.decP())
		}
		return ex.f.Fresh("deccoins", cs)
	})
	regSimple(DS+"AmountOf", func(ex *Exec, a []*Term) *Term { return ex.f.Select(a[0], a[1]) })
	regSimple(DS+"IsZero", func(ex *Exec, a []*Term) *Term { return isZero(ex, a[0]) })
	regSimple(DS+"Add", func(ex *Exec, a []*Term) *Term {
		if a[1].sort == cs {
			return coinsAdd(ex, a[0], a[1])
		}
		return ex.f.Fresh("deccoins", cs)
	})
	regSimple(DS+"Sub", func(ex *Exec, a []*Term) *Term {
		if a[1].sort == cs {
			return coinsSub(ex, a[0], a[1])
		}
		return ex.f.Fresh("deccoins", cs)
	})
	regSimple(DS+"MulDec", func(ex *Exec, a []*Term) *Term {
		// per denomination: round half even of amount*dec / 10^18; kept abstract with bounds only
		return scale(ex, "deccoins.muldec", "(ite (>= (* (select a d) x) 0) (div (+ (* 2 (select a d) x) 1000000000000000000) 2000000000000000000) (- (div (+ (* (- 2) (select a d) x) 1000000000000000000) 2000000000000000000)))", a[0], a[1])
	})
	regSimple(DS+"MulDecTruncate", func(ex *Exec, a []*Term) *Term {
		return scale(ex, "deccoins.muldectrunc", "(div (* (select a d) x) 1000000000000000000)", a[0], a[1])
	})
	regSimple(DS+"QuoDecTruncate", func(ex *Exec, a []*Term) *Term {
		return scale(ex, "deccoins.quodectrunc", "(div (* (select a d) 1000000000000000000) x)", a[0], a[1])
	})
	reg(DS+"TruncateDecimal", func(fr *Frame, st *State, c *ssa.CallCommon, a []*Term) ([]*Term, bool) {
		ex := fr.ex
		whole := scale(ex, "coins.quoint", "(div (select a d) x)", a[0], ex.decP())
		back := scale(ex, "coins.mulint", "(* (select a d) x)", whole, ex.decP())
		return []*Term{whole, coinsSub(ex, a[0], back)}, true
	})
}

// slices / sort functions that write the elements of the slice they are given: the element component of that
// slice type is havocked (they are not "pure": the caller's backing array changes), results are unconstrained.
func init() {
	mut := func(fr *Frame, st *State, c *ssa.CallCommon, a []*Term) ([]*Term, bool) {
		ex := fr.ex
		if len(c.Args) == 0 {
			return nil, false
		}
		sl, ok := types.Unalias(c.Args[0].Type()).Underlying().(*types.Slice)
		if !ok {
			return nil, false
		}
		// make the component known (so that it is framed) before replacing it
		ex.comp(st, ex.eComp(sl.Elem()), ArraySort(SInt, ArraySort(SInt, ex.tm.SortOf(sl.Elem()))))
		ex.havocComps(st, []string{ex.eComp(sl.Elem())})
		return fr.freshResults(st, c.Signature(), "slices"), true
	}
	for _, n := range []string{"slices.Sort", "slices.SortFunc", "slices.SortStableFunc", "slices.Reverse", "slices.Delete", "slices.DeleteFunc",
		"slices.Insert", "slices.Compact", "slices.CompactFunc", "slices.Replace",
		"golang.org/x/exp/slices.Sort", "golang.org/x/exp/slices.SortFunc", "golang.org/x/exp/slices.SortStableFunc", "golang.org/x/exp/slices.Reverse",
		"golang.org/x/exp/slices.Delete", "golang.org/x/exp/slices.Insert", "golang.org/x/exp/slices.Compact", "golang.org/x/exp/slices.CompactFunc", "golang.org/x/exp/slices.Replace",
		"sort.Strings", "sort.Ints", "sort.Float64s", "sort.Slice", "sort.SliceStable"} {
		reg(n, mut)
	}
}
