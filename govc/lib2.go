package main

// More trusted library specifications.

import (
	"go/types"

	"golang.org/x/tools/go/ssa"
)

func init() {
	// bytes.Join(parts, nil): the bytes of the parts in order. Modelled for a parts slice of constant length.
	reg("bytes.Join", func(fr *Frame, st *State, c *ssa.CallCommon, args []*Term) ([]*Term, bool) {
		ex := fr.ex
		f := ex.f
		parts, sep := args[0], args[1]
		n := f.Acc("Slice", "len", parts)
		if n.op != "int" || !n.ival.IsInt64() || n.ival.Int64() > 32 {
			return nil, false
		}
		sepLen := f.Acc("Slice", "len", sep)
		if !(sepLen.op == "int" && sepLen.ival.Sign() == 0) {
			return nil, false
		}
		e := ex.comp(st, "E.slice.uint8", ArraySort(SInt, ArraySort(SInt, Sort("Slice"))))
		arr := f.Select(e, f.Acc("Slice", "ref", parts))
		off := f.Acc("Slice", "off", parts)
		var cat *Term
		total := f.Int(0)
		for i := int64(0); i < n.ival.Int64(); i++ {
			p := f.Select(arr, f.Add(off, f.Int(i)))
			s := ex.bytesToStr(st, p)
			ex.assume(st, f.Eq(ex.tm.StrLen(s), f.Acc("Slice", "len", p)))
			total = f.Add(total, f.Acc("Slice", "len", p))
			if cat == nil {
				cat = s
			} else {
				cat = ex.strConcat(cat, s)
			}
		}
		if cat == nil {
			cat = f.StrLit("")
		}
		// result: a fresh slice holding those bytes
		r := ex.alloc(st)
		ex.assume(st, f.Gt(r, f.Int(0)))
		name := "E.uint8"
		ei := ex.comp(st, name, ArraySort(SInt, ArraySort(SInt, SInt)))
		content := f.App("str.bytes_", ArraySort(SInt, SInt), cat)
		ex.setComp(st, name, f.Store(ei, r, content))
		ex.assumes = append(ex.assumes, f.Eq(f.App("str.frombytes_", SStr, content, f.Int(0), ex.tm.StrLen(cat)), cat))
		ex.assume(st, f.Eq(ex.tm.StrLen(cat), total))
		return []*Term{f.Mk("Slice", r, f.Int(0), total, total)}, true
	}, "E.uint8")
	// strings.Join: a function of the contents of the slice and the separator
	reg("strings.Join", func(fr *Frame, st *State, c *ssa.CallCommon, args []*Term) ([]*Term, bool) {
		return []*Term{fr.ex.strJoin(st, args[0], args[1])}, true
	})
}

func (ex *Exec) strJoin(st *State, s, sep *Term) *Term {
	f := ex.f
	e := ex.comp(st, "E.string", ArraySort(SInt, ArraySort(SInt, SStr)))
	arr := f.Select(e, f.Acc("Slice", "ref", s))
	r := f.App("strings.Join_", SStr, arr, f.Acc("Slice", "off", s), f.Acc("Slice", "len", s), sep)
	ex.assume(st, f.Ge(ex.tm.StrLen(r), f.Int(0)))
	return r
}

var _ = types.Typ

func init() {
	// bytes.Equal(a, b): same bytes (nil and empty are equal)
	reg("bytes.Equal", func(fr *Frame, st *State, c *ssa.CallCommon, args []*Term) ([]*Term, bool) {
		ex := fr.ex
		f := ex.f
		a, b := args[0], args[1]
		sa, sb := ex.bytesToStr(st, a), ex.bytesToStr(st, b)
		la, lb := f.Acc("Slice", "len", a), f.Acc("Slice", "len", b)
		ex.assume(st, f.And(f.Eq(ex.tm.StrLen(sa), la), f.Eq(ex.tm.StrLen(sb), lb)))
		// equal strings iff equal lengths and equal bytes; strings of length 0 are all equal
		ex.assume(st, f.Implies(f.And(f.Eq(la, f.Int(0)), f.Eq(lb, f.Int(0))), f.Eq(sa, sb)))
		return []*Term{f.Eq(sa, sb)}, true
	})
}

func isPointwise(t *Term) bool {
	if t.op == "app" {
		switch t.name {
		case "coins.add", "coins.sub", "coins.mulint", "coins.quoint", "deccoins.muldectrunc", "deccoins.quodectrunc":
			return true
		}
	}
	if t.op == "ite" {
		return isPointwise(t.args[1]) || isPointwise(t.args[2])
	}
	if t.op == "store" {
		return isPointwise(t.args[0])
	}
	return false
}

// time.Time as nanoseconds since the Unix epoch (UTC). AddDate with years == months == 0 adds whole days of
// 86400 s, which is exact for times in UTC (the only location the verified code uses it with).
func init() {
	nano := func(ex *Exec) *Term { return ex.f.Int(1000000000) }
	regSimple("time.Unix", func(ex *Exec, a []*Term) *Term { return ex.f.Add(ex.f.Mul(a[0], nano(ex)), a[1]) })
	T := "(time.Time)."
	regSimple(T+"UTC", func(ex *Exec, a []*Term) *Term { return a[0] })
	regSimple(T+"Local", func(ex *Exec, a []*Term) *Term { return a[0] })
	regSimple(T+"Unix", func(ex *Exec, a []*Term) *Term { return ex.f.Div(a[0], nano(ex)) })
	regSimple(T+"UnixNano", func(ex *Exec, a []*Term) *Term { return a[0] })
	regSimple(T+"After", func(ex *Exec, a []*Term) *Term { return ex.f.Gt(a[0], a[1]) })
	regSimple(T+"Before", func(ex *Exec, a []*Term) *Term { return ex.f.Lt(a[0], a[1]) })
	regSimple(T+"Equal", func(ex *Exec, a []*Term) *Term { return ex.f.Eq(a[0], a[1]) })
	regSimple(T+"Add", func(ex *Exec, a []*Term) *Term { return ex.f.Add(a[0], a[1]) })
	regSimple(T+"Sub", func(ex *Exec, a []*Term) *Term { return ex.f.Sub(a[0], a[1]) })
	regSimple(T+"IsZero", func(ex *Exec, a []*Term) *Term {
		return ex.f.Eq(a[0], ex.f.Mul(ex.f.Int(-62135596800), nano(ex)))
	})
	reg(T+"AddDate", func(fr *Frame, st *State, c *ssa.CallCommon, a []*Term) ([]*Term, bool) {
		ex := fr.ex
		if a[1].op != "int" || a[1].ival.Sign() != 0 || a[2].op != "int" || a[2].ival.Sign() != 0 {
			return nil, false
		}
		ex.trustedUsed["lib:time.Time.AddDate(0,0,d) adds d*86400 s (exact for UTC times)"] = true
		return []*Term{ex.f.Add(a[0], ex.f.Mul(a[3], ex.f.Mul(ex.f.Int(86400), nano(ex))))}, true
	})
	D := "(time.Duration)."
	regSimple(D+"Seconds", func(ex *Exec, a []*Term) *Term { return ex.f.RDiv(ex.f.ToReal(a[0]), ex.f.ToReal(nano(ex))) })
	regSimple(D+"Nanoseconds", func(ex *Exec, a []*Term) *Term { return a[0] })
	regSimple(D+"Milliseconds", func(ex *Exec, a []*Term) *Term { return ex.truncDiv(a[0], ex.f.Int(1000000)) })
}

// utils.Deserialize(raw, *uint64): the value is a function of the bytes (little-endian decoding; trusted)
func (ex *Exec) deser64(st *State, raw *Term) *Term {
	f := ex.f
	e := ex.comp(st, "E.uint8", ArraySort(SInt, ArraySort(SInt, SInt)))
	arr := f.Select(e, f.Acc("Slice", "ref", raw))
	r := f.App("utils.deserialize_u64_", SInt, arr, f.Acc("Slice", "off", raw), f.Acc("Slice", "len", raw))
	return r
}

func init() {
	reg("github.com/lavanet/lava/v5/utils.Deserialize", func(fr *Frame, st *State, c *ssa.CallCommon, a []*Term) ([]*Term, bool) {
		ex := fr.ex
		// the only type Deserialize accepts is *uint64 (anything else panics), whatever the static type at the call site
		var elem types.Type = types.Typ[types.Uint64]
		if mi, ok := c.Args[1].(*ssa.MakeInterface); ok {
			pt, ok := types.Unalias(mi.X.Type()).Underlying().(*types.Pointer)
			if !ok {
				return nil, false
			}
			b, ok := types.Unalias(pt.Elem()).Underlying().(*types.Basic)
			if !ok || b.Kind() != types.Uint64 {
				return nil, false
			}
			elem = pt.Elem()
		}
		pt := types.NewPointer(elem)
		v := ex.deser64(st, a[0])
		ex.assume(st, ex.tm.WellTyped(v, pt.Elem(), 1))
		ex.store(st, a[1], pt.Elem(), v)
		return nil, true
	}, "P.uint64")
	extraSpecFuncs["deser64"] = func(ctx *EvalCtx, args []CV) CV {
		return CV{ctx.ex.deser64(ctx.state(), args[0].t), nil}
	}
}

func init() {
	// AccAddress.Equals(other): same bytes (the other address arrives boxed in the Address interface)
	reg("(github.com/cosmos/cosmos-sdk/types.AccAddress).Equals", func(fr *Frame, st *State, c *ssa.CallCommon, a []*Term) ([]*Term, bool) {
		ex := fr.ex
		o := a[1]
		if o.op == "app" && len(o.args) == 1 && o.args[0].sort == Sort("Slice") {
			o = o.args[0]
		}
		if a[0].sort != Sort("Slice") || o.sort != Sort("Slice") {
			return nil, false
		}
		return []*Term{ex.f.Eq(ex.bytesToStr(st, a[0]), ex.bytesToStr(st, o))}, true
	})
}

func init() {
	// errors.Wrap(err, msg) / Wrapf: nil exactly when err is nil
	for _, n := range []string{"cosmossdk.io/errors.Wrap", "cosmossdk.io/errors.Wrapf", "github.com/cosmos/cosmos-sdk/types/errors.Wrap", "github.com/cosmos/cosmos-sdk/types/errors.Wrapf", "github.com/pkg/errors.Wrap", "github.com/pkg/errors.Wrapf"} {
		reg(n, func(fr *Frame, st *State, c *ssa.CallCommon, args []*Term) ([]*Term, bool) {
			ex := fr.ex
			f := ex.f
			r := f.Fresh("werr", SInt)
			ex.assume(st, f.Ge(r, f.Int(0)))
			ex.assume(st, f.Eq(f.Eq(r, f.Int(0)), f.Eq(args[0], f.Int(0))))
			return []*Term{r}, true
		})
	}
}

func init() {
	// (*Error).Wrap / Wrapf are errors.Wrap(e, ...) with the receiver boxed into the error interface: a *Error in an
	// interface is never the nil interface, so the result is always a non-nil error
	for _, n := range []string{"(*cosmossdk.io/errors.Error).Wrap", "(*cosmossdk.io/errors.Error).Wrapf"} {
		reg(n, func(fr *Frame, st *State, c *ssa.CallCommon, args []*Term) ([]*Term, bool) {
			ex := fr.ex
			r := ex.f.Fresh("werr", SInt)
			ex.assume(st, ex.f.Gt(r, ex.f.Int(0)))
			return []*Term{r}, true
		})
	}
}

func init() {
	// AccAddress.String(): the bech32 text is a function of the address bytes (injectivity is not assumed)
	reg("(github.com/cosmos/cosmos-sdk/types.AccAddress).String", func(fr *Frame, st *State, c *ssa.CallCommon, a []*Term) ([]*Term, bool) {
		ex := fr.ex
		if a[0].sort != Sort("Slice") {
			return nil, false
		}
		return []*Term{ex.f.App("acc.bech32", SStr, ex.bytesToStr(st, a[0]))}, true
	})
}

func init() {
	// protocol/common.LogCodedError / LogCodedWarning: log, emit a metric and return utils.LavaFormatError/Warning's
	// (non-nil) error; treated like the utils logging helpers
	for _, n := range []string{"github.com/lavanet/lava/v5/protocol/common.LogCodedError", "github.com/lavanet/lava/v5/protocol/common.LogCodedWarning"} {
		reg(n, func(fr *Frame, st *State, c *ssa.CallCommon, args []*Term) ([]*Term, bool) {
			ex := fr.ex
			r := ex.f.Fresh("err", SInt)
			ex.assume(st, ex.f.Gt(r, ex.f.Int(0)))
			return []*Term{r}, true
		})
	}
}

func init() {
	// formatuint(x) / formatint(x): the decimal text strconv.FormatUint(x, 10) / FormatInt(x, 10) return
	extraSpecFuncs["formatuint"] = func(ctx *EvalCtx, args []CV) CV {
		return CV{ctx.ex.f.App("strconv.FormatUint_", SStr, args[0].t, ctx.ex.f.Int(10)), types.Typ[types.String]}
	}
	extraSpecFuncs["formatint"] = func(ctx *EvalCtx, args []CV) CV {
		return CV{ctx.ex.f.App("strconv.FormatInt_", SStr, args[0].t, ctx.ex.f.Int(10)), types.Typ[types.String]}
	}
}

func init() {
	// sdk.KVStorePrefixIterator(store, prefix): an iterator whose keys all start with prefix. The iterator value
	// carries its prefix (iter.prefix); iterprefix(it) reads it back in contracts. Other ways to obtain an
	// iterator leave iter.prefix unconstrained.
	for _, n := range []string{"github.com/cosmos/cosmos-sdk/types.KVStorePrefixIterator", "github.com/cosmos/cosmos-sdk/store/types.KVStorePrefixIterator", "github.com/cosmos/cosmos-sdk/types.KVStoreReversePrefixIterator"} {
		reg(n, func(fr *Frame, st *State, c *ssa.CallCommon, a []*Term) ([]*Term, bool) {
			ex := fr.ex
			f := ex.f
			if a[1].sort != Sort("Slice") {
				return nil, false
			}
			it := f.Fresh("kviter", SInt)
			ex.assume(st, f.Gt(it, f.Int(0)))
			ex.assume(st, f.Eq(f.App("iter.prefix", SStr, it), ex.bytesToStr(st, a[1])))
			return []*Term{it}, true
		})
	}
	extraSpecFuncs["iterprefix"] = func(ctx *EvalCtx, args []CV) CV {
		return CV{ctx.ex.f.App("iter.prefix", SStr, args[0].t), types.Typ[types.String]}
	}
}

func init() {
	// utils.Serialize(x uint64): 8 fresh bytes whose contents are a function of the value (little endian; trusted)
	reg("github.com/lavanet/lava/v5/utils.Serialize", func(fr *Frame, st *State, c *ssa.CallCommon, a []*Term) ([]*Term, bool) {
		ex := fr.ex
		f := ex.f
		mi, ok := c.Args[0].(*ssa.MakeInterface)
		if !ok {
			return nil, false
		}
		b, ok := types.Unalias(mi.X.Type()).Underlying().(*types.Basic)
		if !ok || b.Kind() != types.Uint64 {
			return nil, false
		}
		content := f.App("utils.serialize_u64_", SStr, fr.val(mi.X))
		ex.assume(st, f.Eq(ex.tm.StrLen(content), f.Int(8)))
		return []*Term{ex.newBytesOf(st, content)}, true
	})
}

func init() {
	// ser64(x): the 8-byte string utils.Serialize(x) returns
	extraSpecFuncs["ser64"] = func(ctx *EvalCtx, args []CV) CV {
		return CV{ctx.ex.f.App("utils.serialize_u64_", SStr, args[0].t), types.Typ[types.String]}
	}
}

func init() {
	// LegacyDec.ApproxRoot(n): trusted range fact only - the n-th root of a value in [0,1] lies in [0,1]
	reg("(cosmossdk.io/math.LegacyDec).ApproxRoot", func(fr *Frame, st *State, c *ssa.CallCommon, a []*Term) ([]*Term, bool) {
		ex := fr.ex
		f := ex.f
		r := f.Fresh("approxroot", SInt)
		e := f.Fresh("approxroot.err", SInt)
		one := ex.decP()
		ex.assume(st, f.Ge(e, f.Int(0)))
		ex.assume(st, f.Implies(f.And(f.Ge(a[0], f.Int(0)), f.Le(a[0], one)), f.And(f.Ge(r, f.Int(0)), f.Le(r, one))))
		ex.assume(st, f.Implies(f.Ge(a[0], f.Int(0)), f.Ge(r, f.Int(0))))
		return []*Term{r, e}, true
	})
	// LegacyDec.ApproxSqrt = ApproxRoot(2): trusted sign fact only - the root of a non-negative value is not negative
	reg("(cosmossdk.io/math.LegacyDec).ApproxSqrt", func(fr *Frame, st *State, c *ssa.CallCommon, a []*Term) ([]*Term, bool) {
		ex := fr.ex
		f := ex.f
		r := f.Fresh("approxsqrt", SInt)
		e := f.Fresh("approxsqrt.err", SInt)
		ex.assume(st, f.Ge(e, f.Int(0)))
		ex.assume(st, f.Implies(f.Ge(a[0], f.Int(0)), f.Ge(r, f.Int(0))))
		return []*Term{r, e}, true
	})
	// LegacyDec.Power(2) is d.Mul(d) (one rounding); other exponents: only "an even power is not negative"
	reg("(cosmossdk.io/math.LegacyDec).Power", func(fr *Frame, st *State, c *ssa.CallCommon, a []*Term) ([]*Term, bool) {
		ex := fr.ex
		f := ex.f
		if a[1].op == "int" && a[1].ival.IsInt64() && a[1].ival.Int64() == 2 {
			r := ex.roundHalfEvenDiv(f.Mul(a[0], a[0]), ex.decP())
			ex.assume(st, f.Ge(r, f.Int(0)))
			return []*Term{r}, true
		}
		return nil, false
	})
}

func init() {
	// binary.LittleEndian.AppendUint64(b, v): fresh bytes whose contents are those of b followed by the 8-byte
	// little-endian encoding of v (binary.le64_: a function of v, 8 long; trusted: encoding/binary)
	for _, n := range []string{"(encoding/binary.littleEndian).AppendUint64"} {
		reg(n, func(fr *Frame, st *State, c *ssa.CallCommon, a []*Term) ([]*Term, bool) {
			ex := fr.ex
			f := ex.f
			if len(a) != 3 {
				return nil, false
			}
			enc := f.App("binary.le64_", SStr, a[2])
			ex.assume(st, f.Eq(ex.tm.StrLen(enc), f.Int(8)))
			content := ex.strConcat(ex.bytesToStr(st, a[1]), enc)
			return []*Term{ex.newBytesOf(st, content)}, true
		})
	}
	// le64(v): the 8 bytes binary.LittleEndian puts for v
	extraSpecFuncs["le64"] = func(ctx *EvalCtx, args []CV) CV {
		return CV{ctx.ex.f.App("binary.le64_", SStr, args[0].t), types.Typ[types.String]}
	}
}
