package main

// Calls (contracts, inlining, library models, havoc) and loops (invariants).

import (
	"fmt"
	"go/token"
	"go/types"
	"sort"
	"strings"

	"golang.org/x/tools/go/ssa"
)

func (fr *Frame) call(st *State, c *ssa.CallCommon, in ssa.Instruction) []*Term {
	args := make([]*Term, len(c.Args))
	for i, a := range c.Args {
		args[i] = fr.val(a)
	}
	return fr.callWith(st, c, in, args, fr.val(c.Value))
}

// siteAsserts handles 'at call:<callee>[#k][:after] assert|assume' clauses of the function under verification.
// Before the call the arguments are arg0..argN; after it (suffix ":after") the results are ret0..retN as well.
func (fr *Frame) siteAsserts(st *State, c *ssa.CallCommon, in ssa.Instruction, args []*Term, results []*Term, after bool) {
	root := fr
	if !root.verifying || root.contract == nil {
		return
	}
	ord := fr.callOrd[in]
	name := calleeShortName(c)
	for _, cl := range root.contract.Asserts {
		if !cl.HasTag(fr.ex.prop) {
			continue
		}
		site := strings.TrimPrefix(cl.At, "call:")
		isAfter := strings.HasSuffix(site, ":after")
		site = strings.TrimSuffix(site, ":after")
		if isAfter != after {
			continue
		}
		if i := strings.Index(site, `@"`); i >= 0 {
			// call:<callee>@"<first string literal argument, spaces written as _>": selects the call by its
			// message rather than by its position
			lit := strings.TrimSuffix(site[i+2:], `"`)
			if site[:i] != name || !firstStringArgIs(c, lit) {
				continue
			}
		} else if site != name && site != ord {
			continue
		}
		ctx := fr.evalCtx(st, in.Block())
		if after {
			rs := c.Signature().Results()
			for i, r := range results {
				if i < rs.Len() {
					ctx.vars[fmt.Sprintf("ret%d", i)] = CV{r, rs.At(i).Type()}
				}
			}
		}
		// callee arguments are visible as arg0..argN
		for i, a := range args {
			var t types.Type
			if i < len(c.Args) {
				t = c.Args[i].Type()
			}
			ctx.vars[fmt.Sprintf("arg%d", i)] = CV{a, t}
		}
		if c.IsInvoke() {
			ctx.vars["recv"] = CV{fr.val(c.Value), c.Value.Type()}
		}
		goal, err := ctx.evalBool(cl.Text)
		if err != nil {
			fr.ex.W.contractError(cl, err)
			continue
		}
		label := cl.Label
		if label == "" {
			label = fmt.Sprintf("L%d", cl.Line)
		}
		if cl.Kind == "assume" {
			fr.ex.assume(st, goal)
			fr.ex.trustedUsed["assumed at "+fr.key()+" before "+ord+": "+cl.Text] = true
			continue
		}
		fr.ex.addOblig(&Obligation{Name: fmt.Sprintf("%s/assert@%s:%s", fr.key(), ord, label), Kind: "assert", Fn: fr.key(), Goal: goal, PC: st.pc,
			Pos: fr.ex.W.prog.Fset.Position(in.Pos()).String(), Clause: cl})
	}
}

func (fr *Frame) callWith(st *State, c *ssa.CallCommon, in ssa.Instruction, args []*Term, fnval *Term) []*Term {
	fr.siteAsserts(st, c, in, args, nil, false)
	res := fr.callWith0(st, c, in, args, fnval)
	if !st.pc.IsFalse() {
		fr.siteAsserts(st, c, in, args, res, true)
	}
	return res
}

func (fr *Frame) callWith0(st *State, c *ssa.CallCommon, in ssa.Instruction, args []*Term, fnval *Term) []*Term {
	ex := fr.ex
	sig := c.Signature()

	if b, ok := c.Value.(*ssa.Builtin); ok {
		return fr.builtin(st, b, c, in, args)
	}
	if c.IsInvoke() {
		recvT := c.Value.Type()
		key := ifaceKey(recvT, c.Method.Name())
		full := append([]*Term{fnval}, args...)
		if m := libModel(ex, "iface:"+key); m != nil {
			if res, ok := m(fr, st, c, full); ok {
				return res
			}
		}
		// the dynamic type is known: the interface value was made from a struct of one named type on every
		// path that reaches the call (x := T{...}; var i I = x; i.m()): call T.m (its contract says more than
		// the interface method's)
		if callee, recv := fr.devirtualize(fnval, c); callee != nil {
			return fr.callStatic(st, callee, nil, c, in, append([]*Term{recv}, args...), sig)
		}
		if ct := ex.W.contracts[key]; ct != nil {
			return fr.applyContract(st, ct, nil, c, in, full, sig, true)
		}
		if pureIface(key) {
			return fr.freshResults(st, sig, "inv."+c.Method.Name())
		}
		if isKeeperIface(recvT) {
			// expected-keeper interfaces work on the KV store (the ghost world), not on Go memory of the caller
			ex.note("keeper interface method without contract: store (world) havocked, Go heap kept: %s", key)
			st.world = ex.f.Fresh("world", SInt)
			return fr.freshResults(st, sig, "inv."+c.Method.Name())
		}
		ex.havocAll(st, "invoke "+key)
		return fr.freshResults(st, sig, "inv."+c.Method.Name())
	}
	callee := c.StaticCallee()
	var bindings []*Term
	if callee == nil {
		// dynamic function value: try to resolve a known closure
		if ci := ex.resolveClosure(fnval); ci != nil {
			callee = ci.fn
			bindings = ci.bindings
		}
	} else if mc, ok := c.Value.(*ssa.MakeClosure); ok {
		for _, b := range mc.Bindings {
			bindings = append(bindings, fr.val(b))
		}
	}
	if callee == nil {
		// sdk.NewInt, sdk.OneDec, ...: package-level function variables aliasing cosmossdk.io/math
		if u, ok := c.Value.(*ssa.UnOp); ok {
			if g, ok := u.X.(*ssa.Global); ok && g.Pkg != nil && g.Pkg.Pkg.Path() == "github.com/cosmos/cosmos-sdk/types" {
				for _, name := range []string{"cosmossdk.io/math." + g.Name(), "cosmossdk.io/math.Legacy" + g.Name()} {
					if m := libModel(ex, name); m != nil {
						if res, ok := m(fr, st, c, args); ok {
							return res
						}
					}
				}
				if isPureExternal("cosmossdk.io/math." + g.Name()) {
					return fr.freshResults(st, sig, sanitize(g.Name()))
				}
			}
		}
		root := fr
		for root.parent != nil {
			root = root.parent
		}
		if root.contract != nil && root.contract.DynPure {
			ex.trustedUsed["dynamic-calls-pure: calls through function values in "+root.key()+" assumed to have no effect on modelled state"] = true
			return fr.freshResults(st, sig, "dyn")
		}
		ex.havocAll(st, "dynamic call in "+fr.fn.Name())
		return fr.freshResults(st, sig, "dyn")
	}
	return fr.callStatic(st, callee, bindings, c, in, args, sig)
}

func (ex *Exec) resolveClosure(t *Term) *closureInfo {
	if ci, ok := ex.closures[t]; ok {
		return ci
	}
	return nil
}

func isKeeperIface(t types.Type) bool {
	n, ok := types.Unalias(t).(*types.Named)
	if !ok || n.Obj().Pkg() == nil {
		return false
	}
	return strings.HasPrefix(n.Obj().Pkg().Path(), lavaMod) && strings.HasSuffix(n.Obj().Name(), "Keeper")
}

func ifaceKey(t types.Type, method string) string {
	t = types.Unalias(t)
	if n, ok := t.(*types.Named); ok && n.Obj().Pkg() != nil {
		return n.Obj().Pkg().Path() + ".(" + n.Obj().Name() + ")." + method
	}
	if n, ok := t.(*types.Named); ok {
		return "(" + n.Obj().Name() + ")." + method
	}
	return "(interface)." + method
}

func (fr *Frame) freshResults(st *State, sig *types.Signature, name string) []*Term {
	res := make([]*Term, sig.Results().Len())
	for i := range res {
		res[i] = fr.ex.freshOf(st, name+".r"+fmt.Sprint(i), sig.Results().At(i).Type())
	}
	return res
}

func (fr *Frame) callStatic(st *State, callee *ssa.Function, bindings []*Term, c *ssa.CallCommon, in ssa.Instruction, args []*Term, sig *types.Signature) []*Term {
	ex := fr.ex
	name := callee.String()
	if callee.Origin() != nil {
		name = callee.Origin().String()
	}
	if m := libModel(ex, name); m != nil {
		if res, ok := m(fr, st, c, args); ok {
			return res
		}
	}
	if res, ok := fr.protoStringModel(st, callee, args); ok {
		return res
	}
	key := fnKey(callee)
	ct := ex.W.contracts[key]
	if ct != nil && !ct.Inline {
		ex.usedContracts[key] = true
		return fr.applyContract(st, ct, callee, c, in, args, sig, false)
	}
	if isPureExternal(name) {
		return fr.pureExternal(st, name, callee, sig, args)
	}
	if len(callee.Blocks) > 0 && fr.depth < ex.maxInline && !ex.onStack(callee) && ex.inlinable(callee, ct) {
		return fr.inline(st, callee, bindings, args, sig)
	}
	if len(callee.Blocks) == 0 {
		if res, ok := fr.protoGetter(st, callee, args); ok {
			return res
		}
	}
	if len(callee.Blocks) == 0 && callee.Synthetic != "" {
		ex.note("synthetic function without body: %s", name)
	}
	ex.havocAll(st, "call "+name)
	return fr.freshResults(st, sig, sanitize(callee.Name()))
}

// pureExternal: a dependency function assumed to have no effect on modelled state. When every argument
// is a plain value (no pointers, slices, maps or interfaces) its results are a function of the arguments,
// otherwise they are unconstrained.
func (fr *Frame) pureExternal(st *State, name string, callee *ssa.Function, sig *types.Signature, args []*Term) []*Term {
	ex := fr.ex
	nondet := strings.HasPrefix(name, "time.Now") || strings.HasPrefix(name, "time.Since") || strings.Contains(name, "rand.")
	valueLike := !nondet
	pts := sigParamTypes(callee.Signature)
	for _, t := range pts {
		if !ex.valueLike(t) {
			valueLike = false
		}
	}
	if !valueLike || len(args) != len(pts) {
		return fr.freshResults(st, sig, sanitize(callee.Name()))
	}
	res := make([]*Term, sig.Results().Len())
	for i := range res {
		rt := sig.Results().At(i).Type()
		res[i] = ex.f.App(fmt.Sprintf("ext.%s.r%d", sanitize(name), i), ex.tm.SortOf(rt), args...)
		ex.typedFacts(st, res[i], rt)
	}
	if nonNegExternal[name] && len(res) > 0 {
		ex.assume(st, ex.f.Ge(res[0], ex.f.Int(0)))
	}
	return res
}

// nonNegExternal: dependency getters whose result is assumed non-negative (listed as assumptions in the evidence):
// a block height handed to the application by consensus is never negative.
var nonNegExternal = map[string]bool{
	"(github.com/cosmos/cosmos-sdk/types.Context).BlockHeight": true,
}

// sigParamTypes: receiver (if any) followed by the parameter types (available without a function body).
func sigParamTypes(sig *types.Signature) []types.Type {
	var out []types.Type
	if sig.Recv() != nil {
		out = append(out, sig.Recv().Type())
	}
	for i := 0; i < sig.Params().Len(); i++ {
		out = append(out, sig.Params().At(i).Type())
	}
	return out
}

func (ex *Exec) valueLike(t types.Type) bool {
	t = types.Unalias(t)
	if _, ok := ex.tm.special[typeFullName(t)]; ok {
		return true
	}
	switch u := t.Underlying().(type) {
	case *types.Basic:
		return u.Kind() != types.UnsafePointer
	case *types.Struct:
		if ex.tm.IsOpaque(t) {
			return true
		}
		for i := 0; i < u.NumFields(); i++ {
			if !ex.valueLike(u.Field(i).Type()) {
				return false
			}
		}
		return true
	}
	return false
}

func (ex *Exec) onStack(fn *ssa.Function) bool {
	for _, f := range ex.callStack {
		if f == fn {
			return true
		}
	}
	return false
}

func (ex *Exec) inlinable(fn *ssa.Function, ct *Contract) bool {
	if ct != nil && ct.Inline {
		return true
	}
	n := 0
	for _, b := range fn.Blocks {
		n += len(b.Instrs)
	}
	if fn.Synthetic != "" || fn.Parent() != nil {
		return n <= 4000
	}
	pkg := ""
	if fn.Pkg != nil {
		pkg = fn.Pkg.Pkg.Path()
	} else if fn.Origin() != nil && fn.Origin().Pkg != nil {
		pkg = fn.Origin().Pkg.Pkg.Path()
	}
	if !strings.HasPrefix(pkg, lavaMod) {
		return n <= 60
	}
	return n <= ex.W.inlineLimit
}

func (fr *Frame) inline(st *State, callee *ssa.Function, bindings, args []*Term, sig *types.Signature) []*Term {
	ex := fr.ex
	ex.inlined[fnKey(callee)] = true
	sub := ex.newFrame(callee, fr)
	sub.safety = fr.safety
	for i, p := range callee.Params {
		if i < len(args) {
			a := args[i]
			if a.sort != ex.tm.SortOf(p.Type()) {
				a = ex.freshOf(st, "arg", p.Type())
			}
			sub.env[p] = a
		}
	}
	for i, fv := range callee.FreeVars {
		if i < len(bindings) {
			sub.env[fv] = bindings[i]
		} else {
			sub.env[fv] = ex.freshOf(st, "freevar", fv.Type())
		}
	}
	ex.callStack = append(ex.callStack, callee)
	out, res := sub.run(st)
	ex.callStack = ex.callStack[:len(ex.callStack)-1]
	if out == nil {
		if debugOn {
			fmt.Printf("DEBUG inlined %s never returns (called from %s)\n", callee.Name(), fr.fn.Name())
		}
		// callee never returns on this path (panics)
		st.pc = ex.f.False()
		return nil
	}
	*st = *out
	return res
}

// applyContract uses a callee's contract at a call site.
func (fr *Frame) applyContract(st *State, ct *Contract, callee *ssa.Function, c *ssa.CallCommon, in ssa.Instruction, args []*Term, sig *types.Signature, invoke bool) []*Term {
	ex := fr.ex
	f := ex.f
	if ct.Trusted {
		ex.trustedUsed[ct.Key()] = true
	}
	names, ptypes := contractParams(ct, callee, c, sig, invoke)
	pre := st.clone()
	bind := func(ctx *EvalCtx) {
		for i, n := range names {
			if i < len(args) && n != "" && n != "_" {
				ctx.vars[n] = CV{args[i], ptypes[i]}
			}
		}
	}
	// preconditions
	for k, cl := range ct.Requires {
		ctx := ex.newEvalCtx(fr.fn, st, pre)
		ctx.calleeFn = callee
		bind(ctx)
		goal, err := ctx.evalBool(cl.Text)
		if err != nil {
			ex.W.contractError(cl, err)
			continue
		}
		label := cl.Label
		if label == "" {
			label = fmt.Sprintf("%d", k)
		}
		// a precondition tagged with properties is assumed everywhere, but only those properties' checks
		// answer for it at the call site (the caller must then be listed under those properties too);
		// an untagged one is checked wherever its caller is verified
		if fr.verifyingRoot() && cl.HasTag(ex.prop) {
			ex.addOblig(&Obligation{Name: fmt.Sprintf("%s/requires@%s:%s", fr.rootKey(), fr.callOrdName(in), label), Kind: "requires", Fn: fr.rootKey(), Goal: goal, PC: st.pc,
				Pos: ex.W.prog.Fset.Position(in.Pos()).String(), Clause: cl})
		}
		ex.assume(st, goal)
	}
	// effects
	switch {
	case ct.Pure:
	case ct.HasAssigns:
		var comps []string
		for _, a := range ct.Assigns {
			if !strings.HasPrefix(a, "*") {
				comps = append(comps, a)
				continue
			}
			// "*param": only the struct the pointer argument points to is written (shallowly). The pointee type
			// is taken from the argument expression at this call site (through an interface conversion if any);
			// when it cannot be determined every struct field heap is havocked instead.
			if !fr.havocPointee(st, strings.TrimPrefix(a, "*"), names, c, args) {
				comps = append(comps, "H.*")
			}
		}
		ex.havocComps(st, comps)
		nf := f.Fresh("frontier", SInt)
		ex.assume(st, f.Ge(nf, st.frontier))
		st.frontier = nf
	default:
		ex.havocAll(st, "contract without assigns: "+ct.Key())
	}
	// results
	res := make([]*Term, sig.Results().Len())
	if ct.Function {
		fargs := append([]*Term{}, args...)
		if ct.ReadsWorld {
			fargs = append(fargs, pre.world)
		}
		if len(ct.Reads) > 0 {
			fargs = append(fargs, ex.heapToken(pre, ct.Reads))
		}
		for i := range res {
			rt := sig.Results().At(i).Type()
			res[i] = f.App(fmt.Sprintf("fn.%s.r%d", sanitize(ct.Key()), i), ex.tm.SortOf(rt), fargs...)
			ex.typedFacts(st, res[i], rt)
		}
	} else {
		for i := range res {
			res[i] = ex.freshOf(st, sanitize(ct.Name)+".r"+fmt.Sprint(i), sig.Results().At(i).Type())
		}
	}
	for _, cl := range ct.Ensures {
		ctx := ex.newEvalCtx(fr.fn, st, pre)
		ctx.calleeFn = callee
		bind(ctx)
		ctx.bindResults(sig, res)
		fact, err := ctx.evalBool(cl.Text)
		if err != nil {
			ex.W.contractError(cl, err)
			continue
		}
		ex.assume(st, fact)
	}
	return res
}

func (fr *Frame) verifyingRoot() bool {
	r := fr
	for r.parent != nil {
		r = r.parent
	}
	return r.verifying
}

func (fr *Frame) rootKey() string {
	r := fr
	for r.parent != nil {
		r = r.parent
	}
	return r.key()
}

func (fr *Frame) callOrdName(in ssa.Instruction) string {
	if fr.parent != nil {
		return shortFnName(fr.fn) + "." + fr.callOrd[in]
	}
	return fr.callOrd[in]
}

// contractParams gives the names and types under which a contract refers to the call's arguments
// (receiver first for methods).
func contractParams(ct *Contract, callee *ssa.Function, c *ssa.CallCommon, sig *types.Signature, invoke bool) ([]string, []types.Type) {
	var names []string
	var ts []types.Type
	if callee != nil {
		for _, p := range callee.Params {
			names = append(names, p.Name())
			ts = append(ts, p.Type())
		}
		return names, ts
	}
	// interface method: receiver is "recv", parameters by their declared names
	names = append(names, "recv")
	ts = append(ts, c.Value.Type())
	ps := sig.Params()
	for i := 0; i < ps.Len(); i++ {
		n := ps.At(i).Name()
		if n == "" {
			n = fmt.Sprintf("p%d", i)
		}
		names = append(names, n)
		ts = append(ts, ps.At(i).Type())
	}
	return names, ts
}

// ---------- builtins

func (fr *Frame) builtin(st *State, b *ssa.Builtin, c *ssa.CallCommon, in ssa.Instruction, args []*Term) []*Term {
	ex := fr.ex
	f := ex.f
	switch b.Name() {
	case "len":
		return []*Term{ex.lenOf(st, args[0], c.Args[0].Type())}
	case "cap":
		if args[0].sort == Sort("Slice") {
			return []*Term{f.Acc("Slice", "cap", args[0])}
		}
		return []*Term{ex.freshOf(st, "cap", types.Typ[types.Int])}
	case "append":
		return []*Term{fr.appendOp(st, c, args)}
	case "copy":
		ex.note("builtin copy: destination contents havocked")
		if st2, ok := types.Unalias(c.Args[0].Type()).Underlying().(*types.Slice); ok {
			ex.havocComps(st, []string{ex.eComp(st2.Elem())})
		}
		n := ex.freshOf(st, "copy.n", types.Typ[types.Int])
		ex.assume(st, f.And(f.Ge(n, f.Int(0)), f.Le(n, ex.lenOf(st, args[0], c.Args[0].Type()))))
		return []*Term{n}
	case "delete":
		mt := types.Unalias(c.Args[0].Type()).Underlying().(*types.Map)
		ex.mapDelete(st, args[0], args[1], mt)
		return nil
	case "panic":
		fr.safetyOb(st, in, "panic", f.False())
		st.pc = f.False()
		return nil
	case "print", "println":
		return nil
	case "min", "max":
		r := args[0]
		for _, a := range args[1:] {
			if b.Name() == "min" {
				r = f.Ite(f.Lt(a, r), a, r)
			} else {
				r = f.Ite(f.Gt(a, r), a, r)
			}
		}
		return []*Term{r}
	case "recover":
		return []*Term{f.Int(0)}
	case "clear":
		ex.havocAll(st, "builtin clear")
		return nil
	case "ssa:wrapnilchk":
		return []*Term{args[0]}
	}
	ex.note("unmodelled builtin %s", b.Name())
	sig := c.Signature()
	return fr.freshResults(st, sig, b.Name())
}

func (ex *Exec) lenOf(st *State, x *Term, t types.Type) *Term {
	f := ex.f
	switch u := types.Unalias(t).Underlying().(type) {
	case *types.Slice:
		if x.sort != Sort("Slice") {
			r := f.App("coins.len_", SInt, x)
			ex.assume(st, f.Ge(r, f.Int(0)))
			return r
		}
		return f.Acc("Slice", "len", x)
	case *types.Basic:
		return ex.tm.StrLen(x)
	case *types.Map:
		l := ex.mapLen(st, x, u)
		// an empty map holds no key
		hn, _, _, ks, _ := ex.mapComps(u)
		bk := f.Bound("k", ks)
		hasArr := f.Select(ex.comp(st, hn, ArraySort(SInt, ArraySort(ks, SBool))), x)
		ex.assume(st, f.Ge(l, f.Int(0)))
		// (a quantified fact: only given to proofs that talk about key presence, it slows the others down)
		if ex.rootMentions("has(") {
			ex.assume(st, f.Implies(f.And(f.Neq(x, f.Int(0)), f.Eq(l, f.Int(0))), f.Forall([]*Term{bk}, f.Not(f.Select(hasArr, bk)))))
		}
		return f.Ite(f.Eq(x, f.Int(0)), f.Int(0), l)
	case *types.Array:
		return f.Int(u.Len())
	case *types.Pointer:
		if a, ok := types.Unalias(u.Elem()).Underlying().(*types.Array); ok {
			return f.Int(a.Len())
		}
	}
	r := f.Fresh("len", SInt)
	ex.assume(st, f.Ge(r, f.Int(0)))
	return r
}

// appendOp models append as always reallocating (fresh backing array holding the old prefix).
func (fr *Frame) appendOp(st *State, c *ssa.CallCommon, args []*Term) *Term {
	ex := fr.ex
	f := ex.f
	s := args[0]
	sl, ok := types.Unalias(c.Args[0].Type()).Underlying().(*types.Slice)
	if !ok {
		return ex.freshOf(st, "append", c.Args[0].Type())
	}
	if s.sort != Sort("Slice") || (args[1].sort != Sort("Slice") && args[1].sort != SStr) {
		ex.note("append involving a coin set used as a list: result unconstrained")
		return ex.freshOf(st, "append", c.Args[0].Type())
	}
	es := ex.tm.SortOf(sl.Elem())
	name := ex.eComp(sl.Elem())
	e := ex.comp(st, name, ArraySort(SInt, ArraySort(SInt, es)))
	add := args[1]
	if add.sort != Sort("Slice") { // append([]byte, string...)
		ex.note("append of a string to a byte slice: contents abstract")
		r := ex.alloc(st)
		n := f.Add(f.Acc("Slice", "len", s), ex.tm.StrLen(add))
		return f.Mk("Slice", r, f.Int(0), n, n)
	}
	oldLen := f.Acc("Slice", "len", s)
	addLen := f.Acc("Slice", "len", add)
	newLen := f.Add(oldLen, addLen)
	r := ex.alloc(st)
	ex.assume(st, f.Gt(r, f.Int(0)))
	// contents: prefix copied from s, then the added elements
	oldArr := f.Select(e, f.Acc("Slice", "ref", s))
	oldOff := f.Acc("Slice", "off", s)
	addArr := f.Select(e, f.Acc("Slice", "ref", add))
	addOff := f.Acc("Slice", "off", add)
	var newArr *Term
	// literal small appends (the varargs array has a known constant length)
	if addLen.op == "int" && addLen.ival.IsInt64() && addLen.ival.Int64() <= 8 {
		n := int(addLen.ival.Int64())
		if oldOff.op == "int" && oldOff.ival.Sign() == 0 {
			newArr = oldArr
		} else {
			newArr = f.Fresh("append.arr", ArraySort(SInt, es))
			i := f.Bound("i", SInt)
			ex.assume(st, f.Forall([]*Term{i}, f.Implies(f.And(f.Ge(i, f.Int(0)), f.Lt(i, oldLen)),
				f.Eq(f.Select(newArr, i), f.Select(oldArr, f.Add(oldOff, i))))))
		}
		for k := 0; k < n; k++ {
			newArr = f.Store(newArr, f.Add(oldLen, f.Int(int64(k))), f.Select(addArr, f.Add(addOff, f.Int(int64(k)))))
		}
	} else {
		newArr = f.Fresh("append.arr", ArraySort(SInt, es))
		i := f.Bound("i", SInt)
		ex.assume(st, f.Forall([]*Term{i}, f.Implies(f.And(f.Ge(i, f.Int(0)), f.Lt(i, oldLen)),
			f.Eq(f.Select(newArr, i), f.Select(oldArr, f.Add(oldOff, i))))))
		j := f.Bound("j", SInt)
		ex.assume(st, f.Forall([]*Term{j}, f.Implies(f.And(f.Ge(j, f.Int(0)), f.Lt(j, addLen)),
			f.Eq(f.Select(newArr, f.Add(oldLen, j)), f.Select(addArr, f.Add(addOff, j))))))
	}
	ex.setComp(st, name, f.Store(e, r, newArr))
	if name == "E.uint8" {
		// the string view of the result is the concatenation of the string views of the operands
		fb := func(arr, off, n *Term) *Term { return f.App("str.frombytes_", SStr, arr, off, n) }
		so, sa := fb(oldArr, oldOff, oldLen), fb(addArr, addOff, addLen)
		cat := ex.strConcat(so, sa)
		ex.assume(st, f.Eq(fb(newArr, f.Int(0), newLen), cat))
		// concatenation with an empty operand
		ex.assume(st, f.Implies(f.Eq(addLen, f.Int(0)), f.Eq(cat, so)))
		ex.assume(st, f.Implies(f.Eq(oldLen, f.Int(0)), f.Eq(cat, sa)))
	}
	cp := f.Fresh("append.cap", SInt)
	ex.assume(st, f.And(f.Ge(cp, newLen), f.Le(cp, f.Mul(f.Int(4), f.Add(newLen, f.Int(8))))))
	// nil stays nil when nothing is appended
	res := f.Mk("Slice", r, f.Int(0), newLen, cp)
	return f.Ite(f.And(f.Eq(addLen, f.Int(0)), f.Eq(f.Acc("Slice", "ref", s), f.Int(0))), s, res)
}

// ---------- loops

func (fr *Frame) loopInvariants(li *loopInfo) []*Clause {
	var out []*Clause
	ct := fr.contract
	if ct == nil {
		ct = fr.ex.W.contracts[fr.key()]
	}
	if ct == nil {
		return nil
	}
	for _, cl := range ct.Invs {
		if cl.Loop == li.ord && cl.HasTag(fr.ex.prop) && cl.Kind == "invariant" {
			out = append(out, cl)
		}
	}
	return out
}

// loopWriteRows: the backing arrays named by the loop's 'writes' clauses (nil when there is none).
func (fr *Frame) loopWriteRows(st *State, li *loopInfo) []*Term {
	ct := fr.contract
	if ct == nil {
		ct = fr.ex.W.contracts[fr.key()]
	}
	if ct == nil {
		return nil
	}
	var rows []*Term
	for _, cl := range ct.Invs {
		if cl.Loop != li.ord || cl.Kind != "writes" {
			continue
		}
		for _, e := range strings.Split(cl.Text, ",") {
			e = strings.TrimSpace(e)
			if e == "" {
				continue
			}
			ctx := fr.evalCtx(st, li.header)
			cv, err := ctx.evalText(e)
			if err != nil || cv.t == nil || cv.t.sort != Sort("Slice") {
				fr.ex.W.contractError(cl, fmtErrorf("loop writes: %s is not a slice here", e))
				return nil
			}
			rows = append(rows, fr.ex.f.Acc("Slice", "ref", cv.t))
		}
	}
	return rows
}

func (fr *Frame) loopSteps(li *loopInfo) []*Clause {
	var out []*Clause
	ct := fr.contract
	if ct == nil {
		ct = fr.ex.W.contracts[fr.key()]
	}
	if ct == nil {
		return nil
	}
	for _, cl := range ct.Invs {
		if cl.Loop == li.ord && cl.HasTag(fr.ex.prop) && cl.Kind == "step" {
			out = append(out, cl)
		}
	}
	return out
}

// modifiedInLoop: heap components possibly written by the loop body (nil, true = everything).
func (fr *Frame) modifiedInLoop(li *loopInfo) ([]string, bool) {
	ex := fr.ex
	set := map[string]bool{}
	// real: components written at objects that may be older than the loop (the others are only written at
	// objects the loop body itself allocates: composite literals, make, append, loop variables)
	real := map[string]bool{}
	all := false
	var scanFn func(fn *ssa.Function, blocks map[*ssa.BasicBlock]bool, depth int)
	addrComp := func(v ssa.Value) []string { return ex.staticComps(v) }
	scanFn = func(fn *ssa.Function, blocks map[*ssa.BasicBlock]bool, depth int) {
		for _, b := range fn.Blocks {
			if blocks != nil && !blocks[b] {
				continue
			}
			for _, in := range b.Instrs {
				switch x := in.(type) {
				case *ssa.Store:
					if root := localRoot(x.Addr); root != nil {
						if fn == fr.fn {
							set["L."+fr.localName(root)] = true
						}
						continue
					}
					root := heapAllocRoot(x.Addr)
					fresh := root != nil && (blocks == nil || blocks[root.Block()])
					for _, c := range addrComp(x.Addr) {
						set[c] = true
						if !fresh {
							real[c] = true
						}
					}
				case *ssa.Alloc:
					if !x.Heap {
						if fn == fr.fn {
							set["L."+fr.localName(x)] = true
						}
						continue
					}
					et := x.Type().Underlying().(*types.Pointer).Elem()
					for _, c := range ex.compsOfType(et) {
						set[c] = true
					}
				case *ssa.MapUpdate:
					mt := types.Unalias(x.Map.Type()).Underlying().(*types.Map)
					h, v, l, _, _ := ex.mapComps(mt)
					set[h], set[v], set[l] = true, true, true
					real[h], real[v], real[l] = true, true, true
				case *ssa.MakeMap:
					mt := types.Unalias(x.Type()).Underlying().(*types.Map)
					h, v, l, _, _ := ex.mapComps(mt)
					set[h], set[v], set[l] = true, true, true
				case *ssa.MakeSlice:
					et := types.Unalias(x.Type()).Underlying().(*types.Slice).Elem()
					set[ex.eComp(et)] = true
				case *ssa.Convert:
					if ex.tm.SortOf(x.Type()) == Sort("Slice") && ex.tm.SortOf(x.X.Type()) == SStr {
						set["E.uint8"] = true
					}
				case *ssa.Range:
					set[fmt.Sprintf("IT.%s.%s", sanitize(fnKey(fn)), x.Name())] = true
				case *ssa.Next:
					if r, ok := x.Iter.(*ssa.Range); ok {
						set[fmt.Sprintf("IT.%s.%s", sanitize(fnKey(fn)), r.Name())] = true
					}
				case *ssa.Go, *ssa.Send, *ssa.Select:
					all = true
					if debugOn {
						fmt.Printf("DEBUG loop-frame: everything havocked because of %s in %s\n", in.String(), fn.Name())
					}
				case *ssa.Slice:
					if pt, ok := types.Unalias(x.X.Type()).Underlying().(*types.Pointer); ok {
						if at, ok := types.Unalias(pt.Elem()).Underlying().(*types.Array); ok {
							set[ex.eComp(at.Elem())] = true
						}
					}
				case ssa.CallInstruction:
					if _, isDefer := in.(*ssa.Defer); isDefer && blocks != nil {
						all = true
						if debugOn {
							fmt.Printf("DEBUG loop-frame: everything havocked because of %s in %s\n", in.String(), fn.Name())
						}
						continue
					}
					cc := x.Common()
					if bi, ok := cc.Value.(*ssa.Builtin); ok {
						switch bi.Name() {
						case "append", "copy":
							if sl, ok := types.Unalias(cc.Args[0].Type()).Underlying().(*types.Slice); ok {
								set[ex.eComp(sl.Elem())] = true
								if bi.Name() == "copy" {
									real[ex.eComp(sl.Elem())] = true
								}
							}
						case "delete":
							mt := types.Unalias(cc.Args[0].Type()).Underlying().(*types.Map)
							h, v, l, _, _ := ex.mapComps(mt)
							set[h], set[v], set[l] = true, true, true
							real[h], real[v], real[l] = true, true, true
						case "clear":
							all = true
							if debugOn {
								fmt.Printf("DEBUG loop-frame: everything havocked because of %s in %s\n", in.String(), fn.Name())
							}
						}
						continue
					}
					if cc.IsInvoke() {
						key := ifaceKey(cc.Value.Type(), cc.Method.Name())
						if libModel(ex, "iface:"+key) != nil || pureIface(key) {
							for _, c := range libAssigns("iface:" + key) {
								set[c] = true
								real[c] = true
							}
							continue
						}
						if ct := ex.W.contracts[key]; ct != nil {
							if ct.Pure {
								continue
							}
							if ct.HasAssigns {
								for _, a := range ct.Assigns {
									set[a] = true
									real[a] = true
								}
								continue
							}
						}
						if isKeeperIface(cc.Value.Type()) {
							set["world"] = true
							continue
						}
						all = true
						if debugOn {
							fmt.Printf("DEBUG loop-frame: everything havocked because of %s in %s\n", in.String(), fn.Name())
						}
						continue
					}
					callee := cc.StaticCallee()
					if callee == nil && isSdkMathAlias(cc.Value) {
						continue
					}
					if callee == nil && fr.contract != nil && fr.contract.DynPure {
						continue
					}
					if callee == nil {
						all = true
						if debugOn {
							fmt.Printf("DEBUG loop-frame: everything havocked because of %s in %s\n", in.String(), fn.Name())
						}
						continue
					}
					name := callee.String()
					if callee.Origin() != nil {
						name = callee.Origin().String()
					}
					if libModel(ex, name) != nil {
						if len(libAssigns(name)) > 0 && len(cc.Args) > 0 {
							// models that write do so through their first (pointer) argument
							if root := localRoot(cc.Args[0]); root != nil {
								if fn == fr.fn {
									set["L."+fr.localName(root)] = true
								}
							} else {
								for _, c := range addrComp(cc.Args[0]) {
									set[c] = true
									real[c] = true
								}
							}
						}
						for _, c := range libAssigns(name) {
							set[c] = true
							real[c] = true
						}
						continue
					}
					if isPureExternal(name) {
						continue
					}
					ct := ex.W.contracts[fnKey(callee)]
					if ct != nil && !ct.Inline {
						if ct.Pure {
							continue
						}
						if ct.HasAssigns {
							for _, a := range ct.Assigns {
								set[a] = true
								real[a] = true
							}
							set["world"] = true
							continue
						}
						all = true
						if debugOn {
							fmt.Printf("DEBUG loop-frame: everything havocked because of %s in %s\n", in.String(), fn.Name())
						}
						continue
					}
					if len(callee.Blocks) > 0 && depth < ex.maxInline && ex.inlinable(callee, ct) {
						scanFn(callee, nil, depth+1)
						continue
					}
					all = true
					if debugOn {
						fmt.Printf("DEBUG loop-frame: everything havocked because of %s in %s\n", in.String(), fn.Name())
					}
				}
			}
		}
	}
	scanFn(fr.fn, li.body, fr.depth)
	if all {
		return nil, true
	}
	var out []string
	for k := range set {
		// written only at objects allocated by the loop body and never touched before the loop: no object older
		// than the loop changes, and nothing is known about the component yet - leave it alone
		if _, known := ex.compSort[k]; !known && !real[k] && !strings.HasPrefix(k, "L.") && !strings.HasPrefix(k, "IT.") && !strings.HasSuffix(k, "*") && k != "world" {
			continue
		}
		out = append(out, k)
	}
	sort.Strings(out)
	return out, false
}

func (ex *Exec) compsOfType(t types.Type) []string {
	if dt, s, ok := ex.tm.StructOf(t); ok {
		var out []string
		for i := 0; i < s.NumFields(); i++ {
			out = append(out, "H."+dt+"."+fieldName(s, i))
		}
		return out
	}
	if a, ok := types.Unalias(t).Underlying().(*types.Array); ok {
		return []string{ex.eComp(a.Elem())}
	}
	return []string{ex.pComp(t)}
}

// staticComps: the heap components a store through address value v may write.
func (ex *Exec) staticComps(v ssa.Value) []string {
	switch x := v.(type) {
	case *ssa.FieldAddr:
		if isInteriorSSA(x.X) {
			return ex.staticComps(x.X)
		}
		pt := types.Unalias(x.X.Type()).Underlying().(*types.Pointer).Elem()
		if dt, s, ok := ex.tm.StructOf(pt); ok {
			return []string{"H." + dt + "." + fieldName(s, x.Field)}
		}
		return ex.compsOfType(x.Type().Underlying().(*types.Pointer).Elem())
	case *ssa.IndexAddr:
		if isInteriorSSA(x.X) {
			return ex.staticComps(x.X)
		}
		et := x.Type().Underlying().(*types.Pointer).Elem()
		return []string{ex.eComp(et)}
	}
	// phi / parameter / loaded pointer: could be interior pointer of the same element type
	pt, ok := types.Unalias(v.Type()).Underlying().(*types.Pointer)
	if !ok {
		return nil
	}
	out := ex.compsOfType(pt.Elem())
	if _, isPhi := v.(*ssa.Phi); isPhi {
		for _, e := range v.(*ssa.Phi).Edges {
			if isInteriorSSA(e) {
				out = append(out, ex.staticComps(e)...)
			}
		}
	}
	return out
}

// localRoot: the non-escaping Alloc an address is derived from (through FieldAddr/IndexAddr), if any.
func localRoot(v ssa.Value) *ssa.Alloc {
	for {
		switch x := v.(type) {
		case *ssa.Alloc:
			if !x.Heap {
				return x
			}
			return nil
		case *ssa.FieldAddr:
			v = x.X
		case *ssa.IndexAddr:
			if _, isPtr := types.Unalias(x.X.Type()).Underlying().(*types.Pointer); !isPtr {
				return nil
			}
			v = x.X
		default:
			return nil
		}
	}
}

func isInteriorSSA(v ssa.Value) bool {
	switch v.(type) {
	case *ssa.FieldAddr, *ssa.IndexAddr:
		return true
	}
	return false
}

func (fr *Frame) invName(li *loopInfo, cl *Clause, k int) string {
	label := cl.Label
	if label == "" {
		label = fmt.Sprintf("%d", k)
	}
	return fmt.Sprintf("loop%d:%s", li.ord, label)
}

func (fr *Frame) loopHeader(st *State, li *loopInfo, phis []*ssa.Phi, entryVals map[*ssa.Phi]*Term) {
	ex := fr.ex
	f := ex.f
	invs := fr.loopInvariants(li)
	// 1. invariant holds on entry
	for _, p := range phis {
		fr.env[p] = entryVals[p]
	}
	if fr.verifyingRoot() {
		for k, cl := range invs {
			ctx := fr.evalCtx(st, li.header)
			goal, err := ctx.evalBool(cl.Text)
			if err != nil {
				ex.W.contractError(cl, err)
				continue
			}
			ex.addOblig(&Obligation{Name: fmt.Sprintf("%s/invariant-entry@%s", fr.key(), fr.invName(li, cl, k)), Kind: "invariant-entry", Fn: fr.rootKey(), Goal: goal, PC: st.pc, Clause: cl})
		}
	}
	// 2. havoc what the loop may change
	comps, all := fr.modifiedInLoop(li)
	if all {
		ex.havocAll(st, "loop in "+fr.fn.Name()+" calls code without frame")
	} else {
		for _, c := range comps {
			if _, ok := ex.compSort[c]; !ok {
				continue
			}
		}
		// 'loop <n> writes s, t': the loop writes slice elements only in the backing arrays of the named
		// (loop-invariant) slices. The element heaps are then havocked at those arrays only; that nothing
		// else was written is proved on every back edge (loop-frame obligation).
		rows := fr.loopWriteRows(st, li)
		before := map[string]*Term{}
		if rows != nil {
			for _, c := range comps {
				if s, ok := ex.compSort[c]; ok && strings.HasPrefix(c, "E.") {
					if ks, _ := s.ArrayParts(); ks == SInt {
						before[c] = ex.comp(st, c, s)
					}
				}
			}
		}
		ex.havocComps(st, comps)
		for c, old := range before {
			hv := ex.comp(st, c, ex.compSort[c])
			nv := old
			for _, r := range rows {
				nv = f.Store(nv, r, f.Select(hv, r))
			}
			ex.setComp(st, c, nv)
		}
		li.writeRows = rows
		nf := f.Fresh("frontier", SInt)
		ex.assume(st, f.Ge(nf, st.frontier))
		st.frontier = nf
	}
	for _, p := range phis {
		v := f.Fresh(fmt.Sprintf("%s.%s", fr.fn.Name(), p.Name()), ex.tm.SortOf(p.Type()))
		ex.typedFacts(st, v, p.Type())
		fr.env[p] = v
		// counting loop 'for i := a; i < n; i++': i never drops below its entry value (the same fact the
		// range form gets for free, so rewriting one form into the other does not lose a proof)
		if ev := entryVals[p]; ev != nil && countsUp(p, li) {
			ex.assume(st, f.Ge(v, ev))
		}
		// range-over-slice index: Go semantics guarantee -1 <= i < len
		if p.Comment == "rangeindex" {
			ex.assume(st, f.Ge(v, f.Int(-1)))
			// ... and below the length it is compared with in the loop head (t = phi+1; t < len)
			for _, in := range li.header.Instrs {
				cmp, ok := in.(*ssa.BinOp)
				if !ok || cmp.Op != token.LSS {
					continue
				}
				inc, ok := cmp.X.(*ssa.BinOp)
				if !ok || inc.Op != token.ADD || inc.X != ssa.Value(p) {
					continue
				}
				if lenv, ok := fr.env[cmp.Y]; ok {
					ex.assume(st, f.Lt(v, lenv))
				} else if c, ok := cmp.Y.(*ssa.Const); ok {
					ex.assume(st, f.Lt(v, ex.constTerm(c)))
				}
			}
		}
	}
	// 2b. 'loop <n> opaque x, y': forget what the named (loop-invariant) values were computed from; from here
	// on only what the invariants say about them is known (sound: knowledge is only dropped)
	fr.loopOpaque(st, li)
	// 3. assume the invariant
	for _, cl := range invs {
		ctx := fr.evalCtx(st, li.header)
		fact, err := ctx.evalBool(cl.Text)
		if err != nil {
			continue
		}
		ex.assume(st, fact)
	}
	if fr.verifyingRoot() && len(invs) > 0 {
		ex.addOblig(&Obligation{Name: fmt.Sprintf("%s/cover@loop%d", fr.key(), li.ord), Kind: "cover", Fn: fr.rootKey(), Goal: f.False(), PC: st.pc, Cover: true})
	}
	li.head = st.clone()
}

func (fr *Frame) loopBackEdge(st *State, li *loopInfo, from *ssa.BasicBlock) {
	ex := fr.ex
	if !fr.verifyingRoot() {
		return
	}
	invs := fr.loopInvariants(li)
	steps := fr.loopSteps(li)
	if li.writeRows != nil && li.head != nil {
		f := ex.f
		var names []string
		for n := range ex.compSort {
			names = append(names, n)
		}
		sort.Strings(names)
		for _, c := range names {
			s := ex.compSort[c]
			if !strings.HasPrefix(c, "E.") {
				continue
			}
			if ks, _ := s.ArrayParts(); ks != SInt {
				continue
			}
			h0, h1 := ex.comp(li.head, c, s), ex.comp(st, c, s)
			if h0 == h1 {
				continue
			}
			r := f.Fresh("loopframe.r", SInt)
			pre := f.And(f.Gt(r, f.Int(0)), f.Lt(r, li.head.frontier))
			for _, w := range li.writeRows {
				pre = f.And(pre, f.Neq(r, w))
			}
			ex.addOblig(&Obligation{Name: fmt.Sprintf("%s/loop-frame@loop%d:%s:from%d", fr.key(), li.ord, c, fr.backEdgeOrd(li, from)), Kind: "loop-frame", Fn: fr.rootKey(),
				Goal: f.Implies(pre, f.Eq(f.Select(h1, r), f.Select(h0, r))), PC: st.pc})
		}
	}
	if len(invs) == 0 && len(steps) == 0 {
		return
	}
	// bind header phis to the values flowing along this back edge
	saved := map[*ssa.Phi]*Term{}
	for _, in := range li.header.Instrs {
		p, ok := in.(*ssa.Phi)
		if !ok {
			break
		}
		saved[p] = fr.env[p]
	}
	newVals := map[*ssa.Phi]*Term{}
	for p := range saved {
		for pi, pred := range li.header.Preds {
			if pred == from {
				newVals[p] = fr.val(p.Edges[pi])
			}
		}
	}
	for p, v := range newVals {
		fr.env[p] = v
	}
	for k, cl := range invs {
		ctx := fr.evalCtx(st, li.header)
		goal, err := ctx.evalBool(cl.Text)
		if err != nil {
			ex.W.contractError(cl, err)
			continue
		}
		ex.addOblig(&Obligation{Name: fmt.Sprintf("%s/invariant-step@%s:from%d", fr.key(), fr.invName(li, cl, k), fr.backEdgeOrd(li, from)), Kind: "invariant-step", Fn: fr.rootKey(), Goal: goal, PC: st.pc, Clause: cl})
	}
	for k, cl := range steps {
		ctx := fr.evalCtx(st, li.header)
		ctx.altBlock = from
		ctx.prevPhis = saved
		ctx.prevState = li.head
		goal, err := ctx.evalBool(cl.Text)
		if err != nil {
			ex.W.contractError(cl, err)
			continue
		}
		ex.addOblig(&Obligation{Name: fmt.Sprintf("%s/loop-step@%s:from%d", fr.key(), fr.invName(li, cl, k), fr.backEdgeOrd(li, from)), Kind: "loop-step", Fn: fr.rootKey(), Goal: goal, PC: st.pc, Clause: cl})
	}
	for p, v := range saved {
		fr.env[p] = v
	}
}

func (fr *Frame) backEdgeOrd(li *loopInfo, from *ssa.BasicBlock) int {
	n := 0
	for _, p := range li.header.Preds {
		if p == from {
			return n
		}
		if li.header.Dominates(p) {
			n++
		}
	}
	return n
}

// protoGetter models generated protobuf getters of lava types whose package is loaded without bodies:
// func (m *T) GetX() F { if m != nil { return m.X }; return zero }.
func (fr *Frame) protoGetter(st *State, callee *ssa.Function, args []*Term) ([]*Term, bool) {
	ex := fr.ex
	f := ex.f
	name := callee.Name()
	if !strings.HasPrefix(name, "Get") || len(args) != 1 || callee.Signature.Recv() == nil || callee.Signature.Results().Len() != 1 {
		return nil, false
	}
	pt, ok := types.Unalias(callee.Signature.Recv().Type()).Underlying().(*types.Pointer)
	if !ok {
		return nil, false
	}
	dt, s, ok := ex.tm.StructOf(pt.Elem())
	if !ok {
		return nil, false
	}
	field := strings.TrimPrefix(name, "Get")
	for i := 0; i < s.NumFields(); i++ {
		if s.Field(i).Name() == field && types.Identical(s.Field(i).Type(), callee.Signature.Results().At(0).Type()) {
			ex.trustedUsed["lib:generated protobuf getter pattern (*T).GetX() == (m != nil ? m.X : zero): "+callee.String()] = true
			v := ex.load(st, ex.faddr(args[0], dt, fieldName(s, i)), s.Field(i).Type())
			ex.assume(st, f.Implies(f.Neq(args[0], f.Int(0)), ex.tm.WellTyped(v, s.Field(i).Type(), 1)))
			return []*Term{f.Ite(f.Neq(args[0], f.Int(0)), v, ex.tm.Zero(s.Field(i).Type()))}, true
		}
	}
	return nil, false
}
