package main

// Mapping of Go types to SMT sorts, zero values and well-typedness facts.

import (
	"fmt"
	"go/types"
	"math/big"
	"strings"
)

const lavaMod = "github.com/lavanet/lava/v5"

type TypeMap struct {
	f       *TermFactory
	dtType  map[string]types.Type // datatype name -> Go struct type (named or anonymous)
	anon    map[string]string
	sortMem map[types.Type]Sort
	special map[string]Sort // full type name -> special sort
	slices  bool
}

func NewTypeMap(f *TermFactory) *TypeMap {
	tm := &TypeMap{f: f, dtType: map[string]types.Type{}, anon: map[string]string{}, sortMem: map[types.Type]Sort{}}
	tm.special = map[string]Sort{
		"cosmossdk.io/math.Int":       SInt,
		"cosmossdk.io/math.Uint":      SInt,
		"cosmossdk.io/math.LegacyDec": SInt, // value scaled by 10^18
		"time.Time":                   SInt, // nanoseconds since the Unix epoch (UTC)
		"math/big.Int":                SInt,
		// coin sets: amount per denomination (absent = 0); DecCoins amounts are scaled by 10^18
		"github.com/cosmos/cosmos-sdk/types.Coins":    ArraySort(SStr, SInt),
		"github.com/cosmos/cosmos-sdk/types.DecCoins": ArraySort(SStr, SInt),
		// typed atomics: the cell holds the value; every method is one atomic step on it (lib.go)
		"sync/atomic.Bool":   SBool,
		"sync/atomic.Int64":  SInt,
		"sync/atomic.Uint64": SInt,
		"sync/atomic.Int32":  SInt,
		"sync/atomic.Uint32": SInt,
	}
	f.DeclareDT("Slice", []DTField{{"ref", SInt}, {"off", SInt}, {"len", SInt}, {"cap", SInt}})
	return tm
}

func typeFullName(t types.Type) string {
	if n, ok := t.(*types.Named); ok {
		o := n.Obj()
		if o.Pkg() == nil {
			return o.Name()
		}
		return o.Pkg().Path() + "." + o.Name()
	}
	if a, ok := t.(*types.Alias); ok {
		return typeFullName(types.Unalias(a))
	}
	return t.String()
}

func shortPkg(path string) string {
	path = strings.TrimPrefix(path, lavaMod+"/")
	parts := strings.Split(path, "/")
	if len(parts) >= 2 {
		parts = parts[len(parts)-2:]
	}
	return strings.Join(parts, "_")
}

// dtName gives the datatype name for a struct type.
func (tm *TypeMap) dtName(t types.Type) string {
	t = types.Unalias(t)
	if n, ok := t.(*types.Named); ok {
		o := n.Obj()
		name := o.Name()
		if ta := n.TypeArgs(); ta != nil && ta.Len() > 0 {
			var parts []string
			for i := 0; i < ta.Len(); i++ {
				parts = append(parts, sanitize(string(tm.SortOf(ta.At(i)))))
			}
			name += "_" + strings.Join(parts, "_")
		}
		if o.Pkg() == nil {
			return sanitize(name)
		}
		return sanitize(shortPkg(o.Pkg().Path()) + "." + name)
	}
	key := t.String()
	if n, ok := tm.anon[key]; ok {
		return n
	}
	n := fmt.Sprintf("anon%d", len(tm.anon))
	tm.anon[key] = n
	return n
}

// IsOpaque: struct types from outside lava are opaque tokens unless whitelisted.
func (tm *TypeMap) IsOpaque(t types.Type) bool {
	t = types.Unalias(t)
	if _, ok := t.Underlying().(*types.Struct); !ok {
		return false
	}
	n, ok := t.(*types.Named)
	if !ok {
		return false
	}
	if n.Obj().Pkg() == nil {
		return false
	}
	p := n.Obj().Pkg().Path()
	if strings.HasPrefix(p, lavaMod) {
		return false
	}
	switch typeFullName(t) {
	case "github.com/cosmos/cosmos-sdk/types.Coin", "github.com/cosmos/cosmos-sdk/types.DecCoin":
		return false
	}
	return true
}

func (tm *TypeMap) SortOf(t types.Type) Sort {
	t = types.Unalias(t)
	if s, ok := tm.sortMem[t]; ok {
		return s
	}
	s := tm.sortOf(t)
	tm.sortMem[t] = s
	return s
}

func (tm *TypeMap) sortOf(t types.Type) Sort {
	if s, ok := tm.special[typeFullName(t)]; ok {
		return s
	}
	switch u := t.Underlying().(type) {
	case *types.Basic:
		switch {
		case u.Info()&types.IsBoolean != 0:
			return SBool
		case u.Info()&types.IsInteger != 0:
			return SInt
		case u.Info()&types.IsFloat != 0:
			return SReal
		case u.Info()&types.IsString != 0:
			return SStr
		case u.Kind() == types.UnsafePointer:
			return SInt
		case u.Kind() == types.UntypedNil:
			return SInt
		}
		return SInt
	case *types.Pointer, *types.Map, *types.Chan, *types.Signature, *types.Interface:
		return SInt
	case *types.Slice:
		return Sort("Slice")
	case *types.Array:
		return ArraySort(SInt, tm.SortOf(u.Elem()))
	case *types.Struct:
		if tm.IsOpaque(t) {
			return SInt
		}
		name := tm.dtName(t)
		if _, ok := tm.f.dts.byName[name]; !ok {
			// register first (recursion through pointers/slices is by Int/Slice so cannot loop,
			// but by-value nesting needs the nested sorts first)
			tm.dtType[name] = t
			var fields []DTField
			for i := 0; i < u.NumFields(); i++ {
				fields = append(fields, DTField{fieldName(u, i), tm.SortOf(u.Field(i).Type())})
			}
			tm.f.DeclareDT(name, fields)
		}
		return Sort(name)
	case *types.Tuple:
		return SInt
	case *types.TypeParam:
		return SInt
	}
	return SInt
}

func fieldName(s *types.Struct, i int) string {
	n := s.Field(i).Name()
	if n == "_" {
		return fmt.Sprintf("_%d", i)
	}
	return n
}

func (tm *TypeMap) StructOf(t types.Type) (string, *types.Struct, bool) {
	t = types.Unalias(t)
	if _, ok := tm.special[typeFullName(t)]; ok {
		return "", nil, false
	}
	s, ok := t.Underlying().(*types.Struct)
	if !ok || tm.IsOpaque(t) {
		return "", nil, false
	}
	tm.SortOf(t)
	return tm.dtName(t), s, true
}

func intRange(b *types.Basic) (lo, hi *big.Int, ok bool) {
	one := big.NewInt(1)
	pow := func(n uint) *big.Int { return new(big.Int).Lsh(one, n) }
	switch b.Kind() {
	case types.Int, types.Int64, types.UntypedInt:
		return new(big.Int).Neg(pow(63)), new(big.Int).Sub(pow(63), one), true
	case types.Int32, types.UntypedRune:
		return new(big.Int).Neg(pow(31)), new(big.Int).Sub(pow(31), one), true
	case types.Int16:
		return new(big.Int).Neg(pow(15)), new(big.Int).Sub(pow(15), one), true
	case types.Int8:
		return new(big.Int).Neg(pow(7)), new(big.Int).Sub(pow(7), one), true
	case types.Uint, types.Uint64, types.Uintptr:
		return big.NewInt(0), new(big.Int).Sub(pow(64), one), true
	case types.Uint32:
		return big.NewInt(0), new(big.Int).Sub(pow(32), one), true
	case types.Uint16:
		return big.NewInt(0), new(big.Int).Sub(pow(16), one), true
	case types.Uint8:
		return big.NewInt(0), new(big.Int).Sub(pow(8), one), true
	}
	return nil, nil, false
}

func intBits(b *types.Basic) (bits uint, signed bool) {
	switch b.Kind() {
	case types.Int, types.Int64, types.UntypedInt:
		return 64, true
	case types.Int32, types.UntypedRune:
		return 32, true
	case types.Int16:
		return 16, true
	case types.Int8:
		return 8, true
	case types.Uint, types.Uint64, types.Uintptr:
		return 64, false
	case types.Uint32:
		return 32, false
	case types.Uint16:
		return 16, false
	case types.Uint8:
		return 8, false
	}
	return 64, true
}

// WellTyped returns the facts the Go type system guarantees about a value of type t.
func (tm *TypeMap) WellTyped(x *Term, t types.Type, depth int) *Term {
	f := tm.f
	t = types.Unalias(t)
	if _, ok := tm.special[typeFullName(t)]; ok {
		switch typeFullName(t) {
		case "cosmossdk.io/math.Uint":
			return f.Ge(x, f.Int(0))
		case "sync/atomic.Int64":
			return tm.WellTyped(x, types.Typ[types.Int64], 0)
		case "sync/atomic.Uint64":
			return tm.WellTyped(x, types.Typ[types.Uint64], 0)
		case "sync/atomic.Int32":
			return tm.WellTyped(x, types.Typ[types.Int32], 0)
		case "sync/atomic.Uint32":
			return tm.WellTyped(x, types.Typ[types.Uint32], 0)
		}
		return f.True()
	}
	switch u := t.Underlying().(type) {
	case *types.Basic:
		if u.Info()&types.IsInteger != 0 {
			lo, hi, ok := intRange(u)
			if ok {
				return f.And(f.Le(f.BigInt(lo), x), f.Le(x, f.BigInt(hi)))
			}
		}
		if u.Info()&types.IsString != 0 {
			return f.Ge(tm.StrLen(x), f.Int(0))
		}
		return f.True()
	case *types.Pointer, *types.Map, *types.Chan, *types.Signature, *types.Interface:
		return f.Ge(x, f.Int(0))
	case *types.Slice:
		l := f.Acc("Slice", "len", x)
		c := f.Acc("Slice", "cap", x)
		o := f.Acc("Slice", "off", x)
		r := f.Acc("Slice", "ref", x)
		return f.And(f.Ge(l, f.Int(0)), f.Le(l, c), f.Ge(o, f.Int(0)), f.Ge(r, f.Int(0)),
			f.Implies(f.Eq(r, f.Int(0)), f.Eq(c, f.Int(0))), f.Le(c, f.BigInt(new(big.Int).Lsh(big.NewInt(1), 62))))
	case *types.Struct:
		if depth <= 0 {
			return f.True()
		}
		dt, s, ok := tm.StructOf(t)
		if !ok {
			return f.Ge(x, f.Int(0))
		}
		var cs []*Term
		for i := 0; i < s.NumFields(); i++ {
			cs = append(cs, tm.WellTyped(f.Acc(dt, fieldName(s, i), x), s.Field(i).Type(), depth-1))
		}
		return f.And(cs...)
	}
	return f.True()
}

func (tm *TypeMap) StrLen(x *Term) *Term {
	if x.op == "strlit" {
		return tm.f.Int(int64(len(x.name)))
	}
	return tm.f.App("str.len_", SInt, x)
}

func (tm *TypeMap) Zero(t types.Type) *Term {
	f := tm.f
	t = types.Unalias(t)
	if s, ok := tm.special[typeFullName(t)]; ok {
		// zero math.Int is a nil big.Int (methods panic); modelled as 0
		if s == SBool {
			return f.False()
		}
		if s.IsArray() {
			return f.ConstArray(s, f.Int(0))
		}
		return f.Int(0)
	}
	switch u := t.Underlying().(type) {
	case *types.Basic:
		switch {
		case u.Info()&types.IsBoolean != 0:
			return f.False()
		case u.Info()&types.IsFloat != 0:
			return f.Real(big.NewInt(0))
		case u.Info()&types.IsString != 0:
			return f.StrLit("")
		}
		return f.Int(0)
	case *types.Slice:
		return f.Mk("Slice", f.Int(0), f.Int(0), f.Int(0), f.Int(0))
	case *types.Array:
		return f.ConstArray(tm.SortOf(t), tm.Zero(u.Elem()))
	case *types.Struct:
		dt, s, ok := tm.StructOf(t)
		if !ok {
			return f.Int(0)
		}
		args := make([]*Term, s.NumFields())
		for i := range args {
			args[i] = tm.Zero(s.Field(i).Type())
		}
		return f.Mk(dt, args...)
	}
	return f.Int(0)
}
