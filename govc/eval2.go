package main

import (
	"regexp"
	"go/constant"
	"sort"
	"strings"
	"fmt"
	"os"
	"go/ast"
	"go/token"
	"go/types"

	"golang.org/x/tools/go/ssa"
)

// extMethod: a method of a dependency type assumed pure and functional on plain-value arguments
// (the same symbols pureExternal uses at call sites), e.g. ctx.BlockHeight().
func (ctx *EvalCtx) extMethod(recv CV, name string, argExprs []ast.Expr) (CV, bool) {
	ex := ctx.ex
	prog := ex.W.prog
	for _, tt := range []types.Type{recv.typ, types.NewPointer(recv.typ)} {
		ms := prog.MethodSets.MethodSet(tt)
		for i := 0; i < ms.Len(); i++ {
			if ms.At(i).Obj().Name() != name {
				continue
			}
			obj, ok := ms.At(i).Obj().(*types.Func)
			if !ok {
				continue
			}
			fn := prog.FuncValue(obj)
			if fn == nil {
				continue
			}
			full := fn.String()
			args := []*Term{recv.t}
			for _, a := range argExprs {
				args = append(args, ctx.eval(a).t)
			}
			// the same library model the call rule uses (time.Time, math.Int, ... methods)
			if m, ok := libModels[full]; ok {
				if cv, ok := ctx.libCall(m, fn, args); ok {
					return cv, true
				}
			}
			if !isPureExternal(full) {
				return CV{}, false
			}
			for _, t := range sigParamTypes(fn.Signature) {
				if !ex.valueLike(t) {
					return CV{}, false
				}
			}
			rs := fn.Signature.Results()
			if rs.Len() == 0 {
				return CV{}, false
			}
			var res []CV
			for k := 0; k < rs.Len(); k++ {
				res = append(res, CV{ex.f.App(fmt.Sprintf("ext.%s.r%d", sanitize(full), k), ex.tm.SortOf(rs.At(k).Type()), args...), rs.At(k).Type()})
			}
			if nonNegExternal[full] && ctx.st != nil {
				ex.assume(ctx.st, ex.f.Ge(res[0].t, ex.f.Int(0)))
			}
			if ctx.tuples == nil {
				ctx.tuples = map[*Term][]CV{}
			}
			ctx.tuples[res[0].t] = res
			return res[0], true
		}
	}
	return CV{}, false
}

var debugOn = os.Getenv("GOVC_DEBUG") != ""

// paramCell: the local cell (Alloc) a parameter was spilled to because the function assigns to it or takes
// its address (go/ssa emits "tN = local T (name); *tN = name" at entry), or nil.
func (fr *Frame) paramCell(name string) *ssa.Alloc {
	if len(fr.fn.Blocks) == 0 {
		return nil
	}
	for _, in := range fr.fn.Blocks[0].Instrs {
		st, ok := in.(*ssa.Store)
		if !ok {
			continue
		}
		p, isParam := st.Val.(*ssa.Parameter)
		a, isAlloc := st.Addr.(*ssa.Alloc)
		if isParam && isAlloc && p.Name() == name && a.Comment == name {
			return a
		}
	}
	return nil
}

func fmtErrorf(format string, a ...interface{}) error { return fmt.Errorf(format, a...) }

func (fr *Frame) debugCallSites() {
	if !debugOn {
		return
	}
	for _, b := range fr.fn.Blocks {
		for _, in := range b.Instrs {
			if n, ok := fr.callOrd[in]; ok {
				fmt.Printf("DEBUG site %s: %s at %s\n", fr.fn.Name(), n, fr.ex.W.prog.Fset.Position(in.Pos()))
			}
		}
	}
}

// libCall applies a library model inside a contract expression (models that do not need the call site).
func (ctx *EvalCtx) libCall(m LibFn, fn *ssa.Function, args []*Term) (cv CV, ok bool) {
	defer func() {
		if r := recover(); r != nil {
			ok = false
		}
	}()
	fr := ctx.frame
	if fr == nil {
		fr = &Frame{ex: ctx.ex, fn: fn}
	}
	st := ctx.state().clone()
	res, done := m(fr, st, nil, args)
	if !done || len(res) == 0 {
		return CV{}, false
	}
	rs := fn.Signature.Results()
	var cvs []CV
	for i, r := range res {
		if i < rs.Len() {
			cvs = append(cvs, CV{r, rs.At(i).Type()})
		}
	}
	if ctx.tuples == nil {
		ctx.tuples = map[*Term][]CV{}
	}
	ctx.tuples[cvs[0].t] = cvs
	return cvs[0], true
}

// havocPointee: the effect of an "assigns *param" frame item at a call site.
func (fr *Frame) havocPointee(st *State, param string, names []string, c *ssa.CallCommon, args []*Term) bool {
	ex := fr.ex
	idx := -1
	for i, n := range names {
		if n == param {
			idx = i
		}
	}
	if idx < 0 || idx >= len(args) {
		return false
	}
	var sv ssa.Value
	switch {
	case len(c.Args) == len(args):
		sv = c.Args[idx]
	case len(c.Args)+1 == len(args) && idx >= 1:
		sv = c.Args[idx-1]
	default:
		return false
	}
	for {
		switch x := sv.(type) {
		case *ssa.MakeInterface:
			sv = x.X
			continue
		case *ssa.ChangeInterface:
			sv = x.X
			continue
		case *ssa.ChangeType:
			sv = x.X
			continue
		}
		break
	}
	pt, ok := types.Unalias(sv.Type()).Underlying().(*types.Pointer)
	if !ok {
		return false
	}
	if _, _, ok := ex.tm.StructOf(pt.Elem()); !ok {
		return false
	}
	p := fr.val(sv)
	nv := ex.freshOf(st, "out."+sanitize(param), pt.Elem())
	// a nil pointer is not written through
	pre := st.clone()
	ex.store(st, p, pt.Elem(), nv)
	_ = pre
	return true
}

// heapToken: one Int constant per distinct contents of the heap components matching pats ("H.dt.F", "E.uint8",
// "H.dt.*"). A 'function' contract with a 'reads' clause takes it as an extra argument: two applications
// agree only when those components are identical terms at both points. Components still at their initial
// value are left out of the key, so merely reading one does not change the token.
var heapTokens = map[*Exec]map[string]*Term{}

func (ex *Exec) heapToken(st *State, pats []string) *Term {
	var names []string
	for k := range st.heap {
		for _, p := range pats {
			if k == p || strings.HasSuffix(p, ".*") && strings.HasPrefix(k, strings.TrimSuffix(p, "*")) {
				names = append(names, k)
				break
			}
		}
	}
	sort.Strings(names)
	var sb strings.Builder
	fmt.Fprintf(&sb, "gen%d", st.gen)
	for _, k := range names {
		t := st.heap[k]
		if t.op == "var" && t.name == fmt.Sprintf("%s@%d", k, st.gen) {
			continue
		}
		fmt.Fprintf(&sb, ";%s=%d", k, t.id)
	}
	m := heapTokens[ex]
	if m == nil {
		m = map[string]*Term{}
		heapTokens[ex] = m
	}
	key := sb.String()
	if t, ok := m[key]; ok {
		return t
	}
	t := ex.f.Fresh("heapkey", SInt)
	m[key] = t
	return t
}

// firstStringArgIs: the call's first constant string argument equals lit (spaces in the argument match '_')
func firstStringArgIs(c *ssa.CallCommon, lit string) bool {
	for _, a := range c.Args {
		if k, ok := a.(*ssa.Const); ok && k.Value != nil && k.Value.Kind() == constant.String {
			return strings.ReplaceAll(constant.StringVal(k.Value), " ", "_") == lit
		}
	}
	return false
}

func isParam(fn *ssa.Function, name string) bool {
	for _, p := range fn.Params {
		if p.Name() == name {
			return true
		}
	}
	return false
}

// phiByName: the phi node named after a variable in block b or in its nearest dominator that has one
func (fr *Frame) phiByName(name string, b *ssa.BasicBlock) (CV, bool) {
	for ; b != nil; b = b.Idom() {
		for _, in := range b.Instrs {
			p, ok := in.(*ssa.Phi)
			if !ok {
				break
			}
			if p.Comment == name {
				if _, ok := fr.env[p]; ok {
					return CV{fr.val(p), p.Type()}, true
				}
			}
		}
	}
	return CV{}, false
}

var reFromEdge = regexp.MustCompile(`:from\d+$`)
var reCallOrd = regexp.MustCompile(`@([A-Za-z_][A-Za-z0-9_.$]*)#\d+`)

// obligationStem: an obligation name without the numbering of back edges and call sites
func obligationStem(n string) string {
	return reCallOrd.ReplaceAllString(reFromEdge.ReplaceAllString(n, ""), "@$1")
}

// goHasNoEffect: the call started by a go statement has a contract that is pure or assigns nothing
// (interface methods by their iface contract or the pure-interface list)
func (fr *Frame) goHasNoEffect(g *ssa.Go) bool {
	ex := fr.ex
	c := g.Common()
	var ct *Contract
	if c.IsInvoke() {
		key := ifaceKey(c.Value.Type(), c.Method.Name())
		if pureIface(key) {
			return true
		}
		ct = ex.W.contracts[key]
	} else if callee := c.StaticCallee(); callee != nil {
		ct = ex.W.contracts[fnKey(callee)]
	}
	if ct == nil {
		return false
	}
	if ct.Pure {
		return true
	}
	return ct.HasAssigns && len(ct.Assigns) == 0
}

// goAssigns: the components the call started by a go statement may write, when its contract lists them.
func (fr *Frame) goAssigns(g *ssa.Go) ([]string, bool) {
	ex := fr.ex
	c := g.Common()
	var ct *Contract
	if c.IsInvoke() {
		ct = ex.W.contracts[ifaceKey(c.Value.Type(), c.Method.Name())]
	} else if callee := c.StaticCallee(); callee != nil {
		ct = ex.W.contracts[fnKey(callee)]
	}
	if ct == nil || !ct.HasAssigns {
		return nil, false
	}
	for _, a := range ct.Assigns {
		if strings.HasPrefix(a, "*") {
			return nil, false
		}
	}
	return ct.Assigns, true
}

// errClauses: contract clauses that could not be evaluated on the current tree, with the reason.
var errClauses = map[*Clause]bool{}
var errClauseMsg = map[*Clause]string{}

// contractStale: a clause of fn's contract names something the current tree no longer has (a renamed or removed
// local, field or function). The proof of fn's other obligations may then fail for lack of that clause alone, so
// a failing obligation of fn is undecided rather than a violation. Clauses that still name existing things but no
// longer type-check or no longer find their loop (the code they describe was rewritten, not renamed) do not
// excuse a failing obligation.
func (W *World) contractStale(fn string) bool {
	ct := W.contracts[fn]
	if ct == nil {
		return false
	}
	// only clauses that other proofs lean on count: preconditions, domain assumptions, loop invariants and site
	// assumptions. A postcondition or site assertion that no longer evaluates takes no hypothesis away from anything.
	for _, list := range [][]*Clause{ct.Requires, ct.Domains, ct.Invs, ct.Asserts} {
		for _, cl := range list {
			if cl.Kind == "assert" || cl.Kind == "step" {
				continue
			}
			if errClauses[cl] && renameLike(errClauseMsg[cl]) {
				return true
			}
		}
	}
	return false
}

func renameLike(msg string) bool {
	for _, k := range []string{"unknown identifier", "no field ", "unknown member", "no method "} {
		if strings.Contains(msg, k) {
			return true
		}
	}
	return false
}

// countsUp reports whether the loop-head phi p is the counter of a counting loop: the head leaves the loop
// unless p < bound, and every back edge carries p+1 (or p) computed inside the body. Then p+1 cannot wrap
// (p < bound <= max) and p never drops below its value on entry.
func countsUp(p *ssa.Phi, li *loopInfo) bool {
	b, ok := types.Unalias(p.Type()).Underlying().(*types.Basic)
	if !ok || b.Info()&types.IsInteger == 0 {
		return false
	}
	h := li.header
	if len(h.Instrs) == 0 {
		return false
	}
	ifi, ok := h.Instrs[len(h.Instrs)-1].(*ssa.If)
	if !ok || len(h.Succs) != 2 {
		return false
	}
	cmp, ok := ifi.Cond.(*ssa.BinOp)
	if !ok {
		return false
	}
	switch {
	case cmp.Op == token.LSS && cmp.X == ssa.Value(p):
	case cmp.Op == token.GTR && cmp.Y == ssa.Value(p):
	default:
		return false
	}
	if !li.body[h.Succs[0]] || li.body[h.Succs[1]] || h.Succs[0] == h {
		return false
	}
	back := 0
	for i, e := range p.Edges {
		if !li.body[h.Preds[i]] {
			continue
		}
		back++
		if e == ssa.Value(p) {
			continue
		}
		add, ok := e.(*ssa.BinOp)
		if !ok || add.Op != token.ADD || add.X != ssa.Value(p) || add.Block() == h || !li.body[add.Block()] {
			return false
		}
		c, ok := add.Y.(*ssa.Const)
		if !ok || c.Value == nil || c.Value.Kind() != constant.Int {
			return false
		}
		if n, exact := constant.Int64Val(c.Value); !exact || n != 1 {
			return false
		}
	}
	return back > 0
}

// pointeeFrames: for each 'assigns *p' item of a verified function, the heap components of the struct p points
// to (by component-name prefix "H.<dt>.") and the address p had on entry.
func (fr *Frame) pointeeFrames(ct *Contract) map[string][]*Term {
	out := map[string][]*Term{}
	for _, a := range ct.Assigns {
		if !strings.HasPrefix(a, "*") {
			continue
		}
		name := strings.TrimPrefix(a, "*")
		for _, p := range fr.fn.Params {
			if p.Name() != name {
				continue
			}
			pt, ok := types.Unalias(p.Type()).Underlying().(*types.Pointer)
			if !ok {
				continue
			}
			dt, _, ok := fr.ex.tm.StructOf(pt.Elem())
			if !ok {
				continue
			}
			if v, ok := fr.env[p]; ok {
				out["H."+dt+"."] = append(out["H."+dt+"."], v)
			}
		}
	}
	return out
}

// devirtualize: the receiver of an interface call is, on every path, nil or a struct value of one named type
// boxed into the interface (box.<dt>(v), possibly under ite). Returns that type's method and the struct value.
func (fr *Frame) devirtualize(recv *Term, c *ssa.CallCommon) (*ssa.Function, *Term) {
	ex := fr.ex
	dt := ""
	var unbox func(t *Term) *Term
	unbox = func(t *Term) *Term {
		switch {
		case t.op == "app" && strings.HasPrefix(t.name, "box.") && len(t.args) == 1:
			n := strings.TrimPrefix(t.name, "box.")
			if dt != "" && dt != n {
				return nil
			}
			dt = n
			return t.args[0]
		case t.op == "ite":
			a, b := t.args[1], t.args[2]
			az := a.op == "int" && a.ival.Sign() == 0
			bz := b.op == "int" && b.ival.Sign() == 0
			switch {
			case az && bz:
				return nil
			case az:
				return unbox(b)
			case bz:
				return unbox(a)
			}
			ua, ub := unbox(a), unbox(b)
			if ua == nil || ub == nil {
				return nil
			}
			return ex.f.Ite(t.args[0], ua, ub)
		}
		return nil
	}
	v := unbox(recv)
	if v == nil || dt == "" {
		return nil, nil
	}
	T, ok := ex.tm.dtType[dt]
	if !ok {
		return nil, nil
	}
	sel := ex.W.prog.MethodSets.MethodSet(T).Lookup(c.Method.Pkg(), c.Method.Name())
	if sel == nil {
		return nil, nil
	}
	fn := ex.W.prog.MethodValue(sel)
	if fn == nil || fn.Synthetic != "" && len(fn.Blocks) == 0 {
		return nil, nil
	}
	if fn.Synthetic != "" {
		if obj, ok := sel.Obj().(*types.Func); ok {
			if d := ex.W.prog.FuncValue(obj); d != nil {
				fn = d
			}
		}
	}
	if len(fn.Params) == 0 {
		return nil, nil
	}
	if _, isPtr := types.Unalias(fn.Params[0].Type()).Underlying().(*types.Pointer); isPtr {
		return nil, nil
	}
	return fn, v
}

// heapAllocRoot: the heap Alloc an address is an interior pointer of (&x, &x.f, &x.f.g, &x.arr[i]), or nil.
func heapAllocRoot(v ssa.Value) *ssa.Alloc {
	for {
		switch x := v.(type) {
		case *ssa.Alloc:
			if x.Heap {
				return x
			}
			return nil
		case *ssa.FieldAddr:
			v = x.X
		case *ssa.IndexAddr:
			pt, ok := types.Unalias(x.X.Type()).Underlying().(*types.Pointer)
			if !ok {
				return nil
			}
			if _, ok := types.Unalias(pt.Elem()).Underlying().(*types.Array); !ok {
				return nil
			}
			v = x.X
		default:
			return nil
		}
	}
}

// phiStartsAtZero: every edge entering the loop from outside carries the constant 0.
func phiStartsAtZero(p *ssa.Phi, li *loopInfo) bool {
	n := 0
	for i, e := range p.Edges {
		if li.body[li.header.Preds[i]] {
			continue
		}
		c, ok := e.(*ssa.Const)
		if !ok || c.Value == nil || c.Value.Kind() != constant.Int {
			return false
		}
		if v, exact := constant.Int64Val(c.Value); !exact || v != 0 {
			return false
		}
		n++
	}
	return n > 0
}

// rootMentions: the contract of the function under verification uses the given spec construct.
func (ex *Exec) rootMentions(sub string) bool {
	ct := ex.W.contracts[ex.curFn]
	if ct == nil {
		return false
	}
	for _, list := range [][]*Clause{ct.Requires, ct.Ensures, ct.Invs, ct.Asserts, ct.Domains} {
		for _, cl := range list {
			if strings.Contains(cl.Text, sub) {
				return true
			}
		}
	}
	return false
}

// mentionsBound: the term contains a quantifier-bound variable (so it cannot be used in a global fact).
func mentionsBound(t *Term) bool {
	seen := map[*Term]bool{}
	var walk func(t *Term) bool
	walk = func(t *Term) bool {
		if t == nil || seen[t] {
			return false
		}
		seen[t] = true
		if t.op == "bound" {
			return true
		}
		for _, a := range t.args {
			if walk(a) {
				return true
			}
		}
		return false
	}
	return walk(t)
}

// loadedInContract: a value a contract expression reads through a pointer has its Go type's shape (lengths are
// not negative, integers are in range) - the fact the executed code gets whenever it loads the same value.
func (ctx *EvalCtx) loadedInContract(v *Term, t types.Type) *Term {
	if !mentionsBound(v) {
		ctx.ex.assumes = append(ctx.ex.assumes, ctx.ex.tm.WellTyped(v, t, 1))
	}
	return v
}

// allValueLike: every parameter (and the receiver) of fn is a plain value, so an effect-free fn is a function of them.
func (ex *Exec) allValueLike(fn *ssa.Function) bool {
	for _, t := range sigParamTypes(fn.Signature) {
		if !ex.valueLike(t) {
			return false
		}
	}
	return !strings.HasPrefix(fn.String(), "time.Now") && !strings.HasPrefix(fn.String(), "time.Since") && !strings.Contains(fn.String(), "rand.")
}
