package main

// Verification of one function against its contract, and of lemmas.

import (
	"fmt"
	"go/ast"
	"go/parser"
	"go/types"
	"sort"
	"strconv"
	"strings"

	"golang.org/x/tools/go/ssa"
)

type FnReport struct {
	Key       string
	File      string
	Line      int
	Requires  []string
	Domains   []string
	NEnsures  int
	NInvs     int
	SSAInstrs int
	Blocks    int
	Loops     int
	Trusted   bool
	Notes     []string
}

func (ex *Exec) initState() *State {
	f := ex.f
	st := &State{pc: f.True(), heap: map[string]*Term{}, gen: 0, frontier: f.Var("A0", SInt), world: f.Var("world0", SInt)}
	ex.assumes = append(ex.assumes, f.Ge(st.frontier, f.Int(1)))
	ex.genFrontier[0] = st.frontier
	return st
}

func (ex *Exec) VerifyFunc(ct *Contract, fn *ssa.Function) *FnReport {
	f := ex.f
	rep := &FnReport{Key: ct.Key(), File: ct.File, Line: ct.Line, Trusted: ct.Trusted}
	for _, b := range fn.Blocks {
		rep.SSAInstrs += len(b.Instrs)
	}
	rep.Blocks = len(fn.Blocks)
	ex.curFn = ct.Key()
	st := ex.initState()
	fr := ex.newFrame(fn, nil)
	fr.contract = ct
	fr.verifying = true
	fr.safety = ct.Safety
	rep.Loops = len(fr.loops)
	fr.debugCallSites()
	ex.inputs = nil
	for _, p := range fn.Params {
		v := f.Var("p."+sanitize(p.Name()), ex.tm.SortOf(p.Type()))
		ex.typedFacts(st, v, p.Type())
		fr.env[p] = v
		ex.inputs = append(ex.inputs, v)
	}
	for _, p := range fn.FreeVars {
		v := f.Var("fv."+sanitize(p.Name()), ex.tm.SortOf(p.Type()))
		ex.typedFacts(st, v, p.Type())
		fr.env[p] = v
	}
	fr.entry = st.clone()
	entrySnap := st.clone()
	ex.entryEval = func(text string) (*Term, error) {
		ctx := fr.evalCtx(entrySnap.clone(), nil)
		ctx.old = entrySnap
		cv, err := ctx.evalText(text)
		if err != nil {
			return nil, err
		}
		return cv.t, nil
	}
	pre := func(cls []*Clause, kind string) {
		for _, cl := range cls {
			// a precondition is assumed at entry whatever its tags (tags only say which properties' checks
			// answer for it at call sites); domain assumptions are per property
			if kind != "requires" && !cl.HasTag(ex.prop) {
				continue
			}
			ctx := fr.evalCtx(st, nil)
			fact, err := ctx.evalBool(cl.Text)
			if err != nil {
				ex.W.contractError(cl, err)
				continue
			}
			ex.assumes = append(ex.assumes, fact)
			if kind == "requires" {
				rep.Requires = append(rep.Requires, cl.Text)
			} else {
				rep.Domains = append(rep.Domains, cl.Text)
			}
		}
	}
	pre(ct.Requires, "requires")
	pre(ct.Domains, "assume-domain")
	ex.addOblig(&Obligation{Name: ct.Key() + "/cover@entry", Kind: "cover", Fn: ct.Key(), Goal: f.False(), PC: st.pc, Cover: true})
	ex.callStack = []*ssa.Function{fn}
	out, res := fr.run(st)
	ex.callStack = nil
	fr.loopCompleteObligations(ct)
	if out == nil {
		ex.note("%s: no return reachable", ct.Key())
		return rep
	}
	ex.addOblig(&Obligation{Name: ct.Key() + "/cover@exit", Kind: "cover", Fn: ct.Key(), Goal: f.False(), PC: out.pc, Cover: true})
	k := 0
	for _, cl := range ct.Ensures {
		if !cl.HasTag(ex.prop) {
			continue
		}
		ctx := fr.evalCtx(out, nil)
		ctx.bindResults(fn.Signature, res)
		goal, err := ctx.evalBool(cl.Text)
		if err != nil {
			ex.W.contractError(cl, err)
			continue
		}
		label := cl.Label
		if label == "" {
			label = fmt.Sprintf("%d", k)
		}
		k++
		rep.NEnsures++
		ex.addOblig(&Obligation{Name: ct.Key() + "/ensures:" + label, Kind: "ensures", Fn: ct.Key(), Goal: goal, PC: out.pc, Clause: cl,
			Pos: fmt.Sprintf("%s:%d", cl.File, cl.Line)})
	}
	rep.NInvs = len(ct.Invs)
	if ct.HasAssigns && !ct.FrameAssumed {
		ex.frameObligations(ct, fr.entry, out, fr.pointeeFrames(ct))
	}
	if ct.FrameAssumed {
		ex.trustedUsed["frame of "+ct.Key()+" (assigns "+strings.Join(ct.Assigns, ", ")+") is assumed, not verified"] = true
	}
	return rep
}

// frameObligations: for a verified function with an 'assigns' clause, every heap component not listed
// keeps, at every object that existed on entry, the value it had on entry.
func (ex *Exec) frameObligations(ct *Contract, entry, out *State, pointees map[string][]*Term) {
	f := ex.f
	var names []string
	for n := range ex.compSort {
		names = append(names, n)
	}
	sort.Strings(names)
	listed := func(n string) bool {
		for _, a := range ct.Assigns {
			if a == n || (strings.HasSuffix(a, "*") && strings.HasPrefix(n, strings.TrimSuffix(a, "*"))) {
				return true
			}
		}
		return false
	}
	// marker, so that the baseline knows this function has a verified frame: a frame obligation that appears
	// later (a write to a component the function did not touch before) is then judged like a baseline one
	ex.addOblig(&Obligation{Name: ct.Key() + "/frame:(declared)", Kind: "frame", Fn: ct.Key(), Goal: f.True(), PC: out.pc})
	for _, n := range names {
		if strings.HasPrefix(n, "L.") || strings.HasPrefix(n, "IT.") || strings.HasPrefix(n, "G.") || listed(n) {
			continue
		}
		// 'assigns *p': the fields of the struct p points to may change at p, and only there
		var except []*Term
		for prefix, ps := range pointees {
			if strings.HasPrefix(n, prefix) {
				except = append(except, ps...)
			}
		}
		s := ex.compSort[n]
		before := ex.comp(entry, n, s)
		after := ex.comp(out, n, s)
		if before == after {
			// untouched on every path: trivially framed (still counted, so that the obligation set is stable)
			ex.addOblig(&Obligation{Name: ct.Key() + "/frame:" + n, Kind: "frame", Fn: ct.Key(), Goal: f.True(), PC: out.pc})
			continue
		}
		ks, _ := s.ArrayParts()
		r := f.Fresh("frame.r", ks)
		var goal *Term
		if ks == SInt {
			pre := f.And(f.Gt(r, f.Int(0)), f.Lt(r, entry.frontier))
			for _, p := range except {
				pre = f.And(pre, f.Neq(r, p))
			}
			goal = f.Implies(pre, f.Eq(f.Select(after, r), f.Select(before, r)))
		} else {
			goal = f.Eq(f.Select(after, r), f.Select(before, r))
		}
		ex.addOblig(&Obligation{Name: ct.Key() + "/frame:" + n, Kind: "frame", Fn: ct.Key(), Goal: goal, PC: out.pc,
			Clause: &Clause{Text: "assigns " + strings.Join(ct.Assigns, ", ") + "  (component " + n + " must be unchanged on every pre-existing object)", File: ct.File, Line: ct.Line}})
	}
}

// ---------- lemmas: (params) requires... ensures...

type lemmaDecl struct {
	params            []struct{ name, typ string }
	requires, ensures []string
}

func parseLemma(text string) (*lemmaDecl, error) {
	// "(a uint64, b uint64) requires X ; requires Y ; ensures Z"
	text = strings.TrimSpace(text)
	ld := &lemmaDecl{}
	if strings.HasPrefix(text, "(") {
		end := strings.Index(text, ")")
		if end < 0 {
			return nil, fmt.Errorf("bad lemma parameter list")
		}
		for _, p := range strings.Split(text[1:end], ",") {
			fs := strings.Fields(p)
			if len(fs) == 2 {
				ld.params = append(ld.params, struct{ name, typ string }{fs[0], fs[1]})
			} else if len(fs) != 0 {
				return nil, fmt.Errorf("bad lemma parameter %q", p)
			}
		}
		text = strings.TrimSpace(text[end+1:])
	}
	for _, part := range strings.Split(text, ";;") {
		part = strings.TrimSpace(part)
		switch {
		case strings.HasPrefix(part, "requires "):
			ld.requires = append(ld.requires, strings.TrimPrefix(part, "requires "))
		case strings.HasPrefix(part, "ensures "):
			ld.ensures = append(ld.ensures, strings.TrimPrefix(part, "ensures "))
		case part == "":
		default:
			return nil, fmt.Errorf("lemma part must start with requires/ensures: %q", part)
		}
	}
	return ld, nil
}

func basicTypeByName(n string) types.Type {
	for _, b := range types.Typ {
		if b.Name() == n {
			return b
		}
	}
	return nil
}

func (ex *Exec) VerifyLemma(lm *Contract) *FnReport {
	f := ex.f
	rep := &FnReport{Key: lm.Pkg + ".lemma:" + lm.Name, File: lm.File, Line: lm.Line}
	ld, err := parseLemma(lm.LemmaText)
	if err != nil {
		ex.W.errors = append(ex.W.errors, fmt.Sprintf("%s:%d: %v", lm.File, lm.Line, err))
		return rep
	}
	ex.curFn = rep.Key
	st := ex.initState()
	// a lemma is evaluated in the scope of some function of its package (for name resolution)
	var scopeFn *ssa.Function
	if sp := ex.W.spkgs[lm.Pkg]; sp != nil {
		for _, m := range sp.Members {
			if fn, ok := m.(*ssa.Function); ok && fn.Synthetic == "" {
				scopeFn = fn
				break
			}
		}
	}
	ctx := ex.newEvalCtx(scopeFn, st, st.clone())
	ex.inputs = nil
	for _, p := range ld.params {
		var v *Term
		var t types.Type
		switch p.typ {
		case "Int":
			v = f.Var("l."+p.name, SInt)
		case "Bool":
			v = f.Var("l."+p.name, SBool)
		case "Str":
			v = f.Var("l."+p.name, SStr)
			t = types.Typ[types.String]
		case "Real":
			v = f.Var("l."+p.name, SReal)
		default:
			t = basicTypeByName(p.typ)
			if t == nil && scopeFn != nil {
				t = ex.W.lookupType(scopeFn, p.typ)
			}
			if t == nil {
				ex.W.errors = append(ex.W.errors, fmt.Sprintf("%s:%d: unknown lemma parameter type %s", lm.File, lm.Line, p.typ))
				return rep
			}
			v = f.Var("l."+p.name, ex.tm.SortOf(t))
			ex.typedFacts(st, v, t)
		}
		ctx.vars[p.name] = CV{v, t}
		ex.inputs = append(ex.inputs, v)
	}
	cl := &Clause{File: lm.File, Line: lm.Line}
	for _, r := range ld.requires {
		fact, err := ctx.evalBool(r)
		if err != nil {
			ex.W.contractError(cl, err)
			return rep
		}
		ex.assumes = append(ex.assumes, fact)
		rep.Requires = append(rep.Requires, r)
	}
	ex.addOblig(&Obligation{Name: rep.Key + "/cover@entry", Kind: "cover", Fn: rep.Key, Goal: f.False(), PC: st.pc, Cover: true})
	for i, e := range ld.ensures {
		goal, err := ctx.evalBool(e)
		if err != nil {
			ex.W.contractError(cl, err)
			continue
		}
		rep.NEnsures++
		ex.addOblig(&Obligation{Name: fmt.Sprintf("%s/ensures:%d", rep.Key, i), Kind: "lemma", Fn: rep.Key, Goal: goal, PC: st.pc, Clause: &Clause{Text: e, File: lm.File, Line: lm.Line},
			Pos: fmt.Sprintf("%s:%d", lm.File, lm.Line)})
	}
	return rep
}

// lookupType resolves "T", "*T", "pkg.T" in the scope of fn's package.
func (W *World) lookupType(fn *ssa.Function, name string) types.Type {
	ptr := false
	if strings.HasPrefix(name, "*") {
		ptr = true
		name = name[1:]
	}
	// array types [N]T (e.g. the [32]byte of a hash)
	if strings.HasPrefix(name, "[") {
		if end := strings.Index(name, "]"); end > 1 {
			if n, err := strconv.ParseInt(name[1:end], 10, 64); err == nil {
				if et := W.lookupType(fn, name[end+1:]); et != nil {
					return types.NewArray(et, n)
				}
			}
		}
		return nil
	}
	var t types.Type
	if i := strings.Index(name, "."); i >= 0 {
		if pkg := W.resolvePkg(fn, nil, name[:i]); pkg != nil {
			if o := pkg.Scope().Lookup(name[i+1:]); o != nil {
				t = o.Type()
			}
		}
	} else if fn.Pkg != nil {
		if o := fn.Pkg.Pkg.Scope().Lookup(name); o != nil {
			t = o.Type()
		}
	}
	if t == nil && !strings.Contains(name, ".") {
		// predeclared types: int, uint64, string, ...
		if o, ok := types.Universe.Lookup(name).(*types.TypeName); ok {
			t = o.Type()
		}
	}
	if t == nil {
		return nil
	}
	if ptr {
		return types.NewPointer(t)
	}
	return t
}

// ---------- calls to real code from contracts

// specCall symbolically executes a real function of /repo inside a contract expression
// (used by lemmas and two-run statements). The execution runs on a scratch copy of the state.
func (ctx *EvalCtx) specCall(fn *ssa.Function, args []CV) []CV {
	ex := ctx.ex
	if len(fn.Blocks) == 0 {
		ctx.fail("function %s has no body to execute in a contract", fn.Name())
	}
	st := ctx.state().clone()
	fr := ex.newFrame(fn, nil)
	if len(args) != len(fn.Params) {
		ctx.fail("call of %s with %d arguments, want %d", fn.Name(), len(args), len(fn.Params))
	}
	for i, p := range fn.Params {
		a := args[i].t
		if a.sort != ex.tm.SortOf(p.Type()) {
			ctx.fail("argument %d of %s has sort %s, want %s", i, fn.Name(), a.sort, ex.tm.SortOf(p.Type()))
		}
		fr.env[p] = a
	}
	ex.callStack = append(ex.callStack, fn)
	out, res := fr.run(st)
	ex.callStack = ex.callStack[:len(ex.callStack)-1]
	if out == nil {
		ctx.fail("function %s never returns", fn.Name())
	}
	var cvs []CV
	rs := fn.Signature.Results()
	for i, r := range res {
		cvs = append(cvs, CV{r, rs.At(i).Type()})
	}
	return cvs
}

func (ctx *EvalCtx) resolveFuncExpr(e ast.Expr) *ssa.Function {
	W := ctx.ex.W
	switch x := e.(type) {
	case *ast.Ident:
		for _, f := range []*ssa.Function{ctx.calleeFn, ctx.fn} {
			if f != nil && f.Pkg != nil {
				if fn := f.Pkg.Func(x.Name); fn != nil {
					return fn
				}
			}
		}
	case *ast.SelectorExpr:
		if id, ok := x.X.(*ast.Ident); ok {
			if pkg := W.resolvePkg(ctx.fn, ctx.calleeFn, id.Name); pkg != nil {
				if sp := W.spkgs[pkg.Path()]; sp != nil {
					return sp.Func(x.Sel.Name)
				}
				// a dependency (no body; usable in contracts when it is an effect-free function of plain values)
				if sp := W.prog.ImportedPackage(pkg.Path()); sp != nil {
					return sp.Func(x.Sel.Name)
				}
			}
		}
	}
	return nil
}

var _ = parser.ParseExpr
