package main

// Loading /repo's current working tree: typed syntax, SSA, contract files.

import (
	"fmt"
	"go/ast"
	"go/types"
	"os"
	"path/filepath"
	"sort"
	"strings"

	"golang.org/x/tools/go/packages"
	"golang.org/x/tools/go/ssa"
	"golang.org/x/tools/go/ssa/ssautil"
)

type World struct {
	repo        string
	pkgs        []*packages.Package
	prog        *ssa.Program
	spkgs       map[string]*ssa.Package
	contracts   map[string]*Contract
	lemmas      []*Contract
	ghostFns    map[string]*Contract
	aliases     map[string]map[string]string // pkg path -> import alias/name -> imported path
	errors      []string
	inlineLimit int
	contractFiles []string
	loadSeconds float64
	allFuncs    map[*ssa.Function]bool
	nonNilGlobals map[*ssa.Global]bool
	globalInits   map[*ssa.Global]ssa.Value
	ghostVars     map[string]Sort
}

func (W *World) contractError(cl *Clause, err error) {
	msg := fmt.Sprintf("%s:%d: %v", cl.File, cl.Line, err)
	errClauses[cl] = true
	errClauseMsg[cl] = err.Error()
	for _, e := range W.errors {
		if e == msg {
			return
		}
	}
	W.errors = append(W.errors, msg)
}

func LoadWorld(repo string, patterns []string) (*World, error) {
	W := &World{repo: repo, spkgs: map[string]*ssa.Package{}, contracts: map[string]*Contract{}, ghostFns: map[string]*Contract{}, aliases: map[string]map[string]string{}, inlineLimit: 400}
	cfg := &packages.Config{
		Mode:       packages.LoadSyntax,
		Dir:        repo,
		BuildFlags: []string{"-tags=verif"},
		Env:        append(os.Environ(), "GOFLAGS=-mod=mod", "GOPROXY=off", "GOSUMDB=off", "GOTOOLCHAIN=local"),
	}
	pkgs, err := packages.Load(cfg, patterns...)
	if err != nil {
		return nil, err
	}
	var errs []string
	for _, p := range pkgs {
		for _, e := range p.Errors {
			errs = append(errs, e.Error())
		}
	}
	if len(errs) > 0 {
		return nil, fmt.Errorf("package errors (does /repo still compile?):\n%s", strings.Join(errs, "\n"))
	}
	W.pkgs = pkgs
	prog, spkgs := ssautil.Packages(pkgs, ssa.InstantiateGenerics|ssa.GlobalDebug)
	W.prog = prog
	for i, sp := range spkgs {
		if sp == nil {
			continue
		}
		sp.Build()
		W.spkgs[pkgs[i].PkgPath] = sp
	}
	for _, p := range pkgs {
		al := map[string]string{}
		for _, file := range p.Syntax {
			for _, imp := range file.Imports {
				path := strings.Trim(imp.Path.Value, `"`)
				name := ""
				if imp.Name != nil {
					name = imp.Name.Name
				} else if ip := p.Imports[path]; ip != nil {
					name = ip.Name
				} else {
					name = filepath.Base(path)
				}
				al[name] = path
			}
		}
		W.aliases[p.PkgPath] = al
		for i, file := range p.Syntax {
			fname := p.CompiledGoFiles[i]
			if !strings.HasSuffix(fname, "_verif.go") {
				continue
			}
			W.contractFiles = append(W.contractFiles, fname)
			cts, err := ParseContracts(p.PkgPath, fname, file, func(n ast.Node) int { return p.Fset.Position(n.Pos()).Line })
			if err != nil {
				return nil, err
			}
			for _, c := range cts {
				switch c.Kind {
				case "lemma":
					W.lemmas = append(W.lemmas, c)
				case "ghostfn":
					W.ghostFns[c.Name] = c
				case "ghostvar":
					if W.ghostVars == nil {
						W.ghostVars = map[string]Sort{}
					}
					W.ghostVars[c.Name] = c.RetSort
				default:
					if _, dup := W.contracts[c.Key()]; dup {
						return nil, fmt.Errorf("%s:%d: duplicate contract for %s", c.File, c.Line, c.Key())
					}
					W.contracts[c.Key()] = c
				}
			}
		}
	}
	sort.Strings(W.contractFiles)
	return W, nil
}

// resolvePkg resolves a package qualifier used in a contract of fn's package.
func (W *World) resolvePkg(fn, callee *ssa.Function, name string) *types.Package {
	for _, f := range []*ssa.Function{callee, fn} {
		if f == nil {
			continue
		}
		o := f
		if f.Origin() != nil {
			o = f.Origin()
		}
		for o.Parent() != nil {
			o = o.Parent()
		}
		if o.Pkg == nil {
			continue
		}
		if al, ok := W.aliases[o.Pkg.Pkg.Path()]; ok {
			if path, ok := al[name]; ok {
				for _, imp := range o.Pkg.Pkg.Imports() {
					if imp.Path() == path {
						return imp
					}
				}
			}
		}
		for _, imp := range o.Pkg.Pkg.Imports() {
			if imp.Name() == name {
				return imp
			}
		}
	}
	return nil
}

// FindFunc locates the SSA function for a contract.
func (W *World) FindFunc(ct *Contract) *ssa.Function {
	sp := W.spkgs[ct.Pkg]
	if sp == nil {
		return nil
	}
	if ct.Recv == "" {
		if strings.Contains(ct.Name, "$") {
			parts := strings.SplitN(ct.Name, "$", 2)
			parent := sp.Func(parts[0])
			if parent == nil {
				return nil
			}
			for _, a := range parent.AnonFuncs {
				if a.Name() == ct.Name {
					return a
				}
			}
			return nil
		}
		return sp.Func(ct.Name)
	}
	tn, ok := sp.Members[ct.Recv].(*ssa.Type)
	if !ok {
		return nil
	}
	T := tn.Type()
	for _, t := range []types.Type{T, types.NewPointer(T)} {
		ms := W.prog.MethodSets.MethodSet(t)
		for i := 0; i < ms.Len(); i++ {
			if ms.At(i).Obj().Name() == ct.Name {
				fn := W.prog.MethodValue(ms.At(i))
				if fn != nil && fn.Synthetic == "" {
					return fn
				}
				if fn != nil && len(fn.Blocks) > 0 {
					// promoted/wrapper: find the declared method
					if obj, ok := ms.At(i).Obj().(*types.Func); ok {
						if d := W.prog.FuncValue(obj); d != nil {
							return d
						}
					}
				}
			}
		}
	}
	return nil
}

// instancesOf returns the instantiations of a generic function created while building the loaded packages.
func (W *World) instancesOf(fn *ssa.Function) []*ssa.Function {
	if W.allFuncs == nil {
		W.allFuncs = ssautil.AllFunctions(W.prog)
	}
	var out []*ssa.Function
	for f := range W.allFuncs {
		if f.Origin() == fn && len(f.Blocks) > 0 {
			out = append(out, f)
		}
	}
	sort.Slice(out, func(i, j int) bool { return out[i].Name() < out[j].Name() })
	return out
}

func instSuffix(fn *ssa.Function) string {
	if fn.Origin() == nil {
		return ""
	}
	ta := fn.TypeArgs()
	var parts []string
	for _, t := range ta {
		parts = append(parts, types.TypeString(t, func(p *types.Package) string { return p.Name() }))
	}
	return "[" + strings.Join(parts, ",") + "]"
}
