package main

// Additional contract-language forms and library models (kept in a separate file).

import (
	"fmt"
	"go/ast"
	"go/types"
	"strings"

	"golang.org/x/tools/go/ssa"
)

// specialForm: forms whose arguments are not all ordinary expressions.
func (ctx *EvalCtx) specialForm(name string, x *ast.CallExpr) (CV, bool) {
	ex := ctx.ex
	f := ex.f
	switch name {
	case "withfield":
		// withfield(structValue, FieldName, value): the struct value with one field replaced
		if len(x.Args) != 3 {
			ctx.fail("withfield(x, Field, v) takes 3 arguments")
		}
		v := ctx.eval(x.Args[0])
		id, ok := x.Args[1].(*ast.Ident)
		if !ok {
			ctx.fail("withfield: second argument must be a field name")
		}
		if v.typ == nil {
			ctx.fail("withfield of untyped value")
		}
		dt, s, ok := ex.tm.StructOf(v.typ)
		if !ok {
			ctx.fail("withfield: not a (modelled) struct value: %s", v.typ)
		}
		for i := 0; i < s.NumFields(); i++ {
			if s.Field(i).Name() == id.Name {
				nv := ctx.eval(x.Args[2])
				t := nv.t
				if nv.typ == types.Typ[types.UntypedNil] || t.sort != ex.tm.SortOf(s.Field(i).Type()) {
					if nv.typ == types.Typ[types.UntypedNil] {
						t = ex.tm.Zero(s.Field(i).Type())
					} else {
						ctx.fail("withfield: value of sort %s for field %s of sort %s", t.sort, id.Name, ex.tm.SortOf(s.Field(i).Type()))
					}
				}
				return CV{f.With(dt, fieldName(s, i), v.t, t), v.typ}, true
			}
		}
		ctx.fail("withfield: no field %s in %s", id.Name, dt)
	case "str":
		// str(b): the string with the bytes of the byte slice b (the same function []byte<->string conversions use)
		v := ctx.eval(x.Args[0])
		if v.t.sort == SStr {
			return v, true
		}
		if v.t.sort != Sort("Slice") {
			ctx.fail("str() needs a byte slice")
		}
		return CV{ex.bytesToStr(ctx.state(), v.t), types.Typ[types.String]}, true
	case "protostring":
		// protostring(m): the text form of a protobuf message value, as an injective function of the value
		v := ctx.eval(x.Args[0])
		if v.typ == nil {
			ctx.fail("protostring of untyped value")
		}
		t := v.typ
		val := v.t
		if pt, ok := types.Unalias(t).Underlying().(*types.Pointer); ok {
			val = ex.load(ctx.state(), v.t, pt.Elem())
			t = pt.Elem()
		}
		dt, _, ok := ex.tm.StructOf(t)
		if !ok {
			ctx.fail("protostring: not a struct")
		}
		return CV{f.App("protoString."+dt, SStr, val), types.Typ[types.String]}, true
	case "protomarshal":
		// protomarshal(m): the wire bytes of a protobuf message value, as a string (a function of the value)
		v := ctx.eval(x.Args[0])
		if v.typ == nil {
			ctx.fail("protomarshal of untyped value")
		}
		t := v.typ
		val := v.t
		if pt, ok := types.Unalias(t).Underlying().(*types.Pointer); ok {
			val = ex.load(ctx.state(), v.t, pt.Elem())
			t = pt.Elem()
		}
		dt, _, ok := ex.tm.StructOf(t)
		if !ok {
			ctx.fail("protomarshal: not a struct")
		}
		return CV{f.App("protoMarshal."+dt, SStr, val), types.Typ[types.String]}, true
	case "deref":
		v := ctx.eval(x.Args[0])
		pt, ok := types.Unalias(v.typ).Underlying().(*types.Pointer)
		if !ok {
			ctx.fail("deref of non-pointer")
		}
		return CV{ctx.loadedInContract(ex.load(ctx.state(), v.t, pt.Elem()), pt.Elem()), pt.Elem()}, true
	case "any":
		// any(T): an arbitrary but fixed value of type T - the same one in every clause of the run, so a clause
		// proved about it holds for every value of T (a universally quantified logical variable)
		scope := ctx.calleeFn
		if scope == nil {
			scope = ctx.fn
		}
		if scope == nil {
			ctx.fail("any() needs a function scope")
		}
		name := types.ExprString(x.Args[0])
		T := ex.W.lookupType(scope, name)
		if T == nil {
			ctx.fail("unknown identifier %s (type)", name)
		}
		v := f.Var("any."+sanitize(name), ex.tm.SortOf(T))
		ex.assumes = append(ex.assumes, ex.tm.WellTyped(v, T, 1))
		return CV{v, T}, true
	case "visited":
		// visited(k), in an invariant of a range-over-map loop: key k was already handed out by the iteration
		if ctx.frame == nil || ctx.block == nil {
			ctx.fail("visited() is only available in invariants of a range-over-map loop")
		}
		// the iterator of this loop, or of a loop this one is nested in
		var instrs []ssa.Instruction
		instrs = append(instrs, ctx.block.Instrs...)
		for h, li := range ctx.frame.loops {
			if h != ctx.block && li.body[ctx.block] {
				instrs = append(instrs, h.Instrs...)
			}
		}
		for _, in := range instrs {
			nx, ok := in.(*ssa.Next)
			if !ok || nx.IsString {
				continue
			}
			rng, ok := nx.Iter.(*ssa.Range)
			if !ok {
				continue
			}
			mt, ok := types.Unalias(rng.X.Type()).Underlying().(*types.Map)
			if !ok {
				continue
			}
			id := fmt.Sprintf("IT.%s.%s", sanitize(ctx.frame.key()), rng.Name())
			k := ctx.eval(x.Args[0])
			return CV{f.Select(ex.comp(ctx.state(), id, ArraySort(ex.tm.SortOf(mt.Key()), SBool)), k.t), nil}, true
		}
		ctx.fail("visited() is only available in invariants of a range-over-map loop")
	case "unbox":
		// the struct value an interface value was made from (x := T{...}; f(x) with f taking an interface)
		v := ctx.eval(x.Args[0])
		if v.t.op != "app" || !strings.HasPrefix(v.t.name, "box.") || len(v.t.args) != 1 {
			ctx.fail("unbox: not a value boxed into an interface on every path")
		}
		t, ok := ex.tm.dtType[strings.TrimPrefix(v.t.name, "box.")]
		if !ok {
			ctx.fail("unbox: boxed type %s is not a struct", v.t.name)
		}
		return CV{v.t.args[0], t}, true
	}
	return CV{}, false
}

func (ex *Exec) bytesToStr(st *State, b *Term) *Term {
	f := ex.f
	e := ex.comp(st, "E.uint8", ArraySort(SInt, ArraySort(SInt, SInt)))
	arr := f.Select(e, f.Acc("Slice", "ref", b))
	return f.App("str.frombytes_", SStr, arr, f.Acc("Slice", "off", b), f.Acc("Slice", "len", b))
}

var extraSpecFuncs = map[string]SpecFn{}

func specFuncExtra(ex *Exec, name string) SpecFn {
	return extraSpecFuncs[name]
}


// protoStringModel: String() of a generated protobuf message (file *.pb.go) is a function of the message value.
// (Trusted: the text marshaller is deterministic and injective on message values; nested messages are
// identified by their pointers, i.e. the model is shallow.)
func (fr *Frame) protoStringModel(st *State, callee *ssa.Function, args []*Term) ([]*Term, bool) {
	ex := fr.ex
	if res, ok := fr.protoMarshalModel(st, callee, args); ok {
		return res, true
	}
	if callee.Name() != "String" || len(args) != 1 || callee.Signature.Recv() == nil || callee.Signature.Params().Len() != 0 || callee.Signature.Results().Len() != 1 {
		return nil, false
	}
	pos := ex.W.prog.Fset.Position(callee.Pos())
	if !strings.HasSuffix(pos.Filename, ".pb.go") {
		return nil, false
	}
	rt := callee.Signature.Recv().Type()
	val := args[0]
	t := rt
	if pt, ok := types.Unalias(rt).Underlying().(*types.Pointer); ok {
		val = ex.load(st, args[0], pt.Elem())
		t = pt.Elem()
	}
	dt, _, ok := ex.tm.StructOf(t)
	if !ok {
		return nil, false
	}
	ex.trustedUsed["lib:generated protobuf String() is an injective function of the message value (shallow): "+callee.String()] = true
	r := ex.f.App("protoString."+dt, SStr, val)
	ex.assume(st, ex.f.Ge(ex.tm.StrLen(r), ex.f.Int(0)))
	return []*Term{r}, true
}

func init() {
	extraSpecFuncs["strjoin"] = func(ctx *EvalCtx, args []CV) CV {
		return CV{ctx.ex.strJoin(ctx.state(), args[0].t, args[1].t), types.Typ[types.String]}
	}
}

// interfere: thread-modular environment step. If the root contract declares the cell behind p as shared,
// other goroutines may have written it since the last atomic step: its value becomes arbitrary (of its type),
// subject to the contract's rely clauses.
func (fr *Frame) interfere(st *State, p *Term, t types.Type) {
	root := fr
	for root.parent != nil {
		root = root.parent
	}
	ct := root.contract
	if ct == nil || len(ct.Shared) == 0 {
		return
	}
	comp := ""
	if p.op == "app" && strings.HasPrefix(p.name, "faddr.") {
		dt, field := splitFaddr(p.name)
		comp = "H." + dt + "." + field
	}
	shared := false
	for _, s := range ct.Shared {
		if s == comp {
			shared = true
		}
	}
	if !shared {
		return
	}
	ex := fr.ex
	v := ex.freshOf(st, "env."+sanitize(comp), t)
	ex.store(st, p, t, v)
	for _, cl := range ct.Rely {
		ctx := root.evalCtx(st, nil)
		fact, err := ctx.evalBool(cl.Text)
		if err != nil {
			ex.W.contractError(cl, err)
			continue
		}
		ex.assume(st, fact)
	}
	ex.trustedUsed["thread-modular step: shared cell "+comp+" takes an arbitrary value between atomic operations (rely clauses of "+root.key()+" assumed)"] = true
}

// nonNilGlobal: a package-level variable that the package's init function sets to the result of an error
// constructor (errors.New, fmt.Errorf, sdkerrors.New/Register/Wrap...) — the `var ErrX = errors.New(..)` idiom.
// Such variables are assumed never to be reassigned (listed as an assumption when used).
func (W *World) nonNilGlobal(g *ssa.Global) bool {
	if W.nonNilGlobals == nil {
		W.nonNilGlobals = map[*ssa.Global]bool{}
		for _, sp := range W.spkgs {
			initFn := sp.Func("init")
			if initFn == nil {
				continue
			}
			for _, b := range initFn.Blocks {
				for _, in := range b.Instrs {
					st, ok := in.(*ssa.Store)
					if !ok {
						continue
					}
					gl, ok := st.Addr.(*ssa.Global)
					if !ok {
						continue
					}
					v := st.Val
					if mi, ok := v.(*ssa.MakeInterface); ok {
						v = mi.X
					}
					call, ok := v.(*ssa.Call)
					if !ok {
						continue
					}
					callee := call.Common().StaticCallee()
					if callee == nil {
						continue
					}
					switch callee.String() {
					case "errors.New", "fmt.Errorf", "cosmossdk.io/errors.New", "cosmossdk.io/errors.Register", "cosmossdk.io/errors.Wrap", "cosmossdk.io/errors.Wrapf",
						"github.com/cosmos/cosmos-sdk/types/errors.New", "github.com/cosmos/cosmos-sdk/types/errors.Register", "github.com/cosmos/cosmos-sdk/types/errors.Wrap":
						W.nonNilGlobals[gl] = true
					}
				}
			}
		}
	}
	return W.nonNilGlobals[g]
}

// coinType finds the Go type behind a coin datatype name (so that its SMT datatype is declared).
func (W *World) coinType(dt string) types.Type {
	name := "Coin"
	if strings.HasSuffix(dt, "DecCoin") {
		name = "DecCoin"
	}
	for _, p := range W.pkgs {
		if imp := findImport(p.Types, "github.com/cosmos/cosmos-sdk/types", map[*types.Package]bool{}); imp != nil {
			if o := imp.Scope().Lookup(name); o != nil {
				return o.Type()
			}
		}
	}
	panic("cosmos-sdk types not among the dependencies of the loaded packages")
}

func findImport(p *types.Package, path string, seen map[*types.Package]bool) *types.Package {
	if p == nil || seen[p] {
		return nil
	}
	seen[p] = true
	if p.Path() == path {
		return p
	}
	for _, i := range p.Imports() {
		if r := findImport(i, path, seen); r != nil {
			return r
		}
	}
	return nil
}

func specMethodExtra(ex *Exec, recv CV, name string) SpecFn {
	f := ex.f
	if recv.t.sort == ArraySort(SStr, SInt) {
		switch name {
		case "AmountOf":
			return func(ctx *EvalCtx, args []CV) CV { return CV{f.Select(args[0].t, args[1].t), nil} }
		}
	}
	return nil
}

// ---- heap component names by Go type (finer than by SMT sort, so that e.g. a slice of pointers and a byte
// slice live in different element heaps and a loop writing one does not havoc the other)

func (tm *TypeMap) CompName(t types.Type) string {
	t = types.Unalias(t)
	if s, ok := tm.special[typeFullName(t)]; ok {
		if s.IsArray() {
			return "Coins"
		}
		return sanitize(string(s))
	}
	switch u := t.Underlying().(type) {
	case *types.Basic:
		if u.Info()&types.IsString != 0 {
			return "string"
		}
		if int(u.Kind()) < len(types.Typ) && types.Typ[u.Kind()] != nil {
			return types.Typ[u.Kind()].Name() // byte -> uint8, rune -> int32
		}
		return u.Name()
	case *types.Pointer:
		return "ptr." + tm.CompName(u.Elem())
	case *types.Slice:
		return "slice." + tm.CompName(u.Elem())
	case *types.Array:
		return "arr." + tm.CompName(u.Elem())
	case *types.Map:
		return "map"
	case *types.Interface:
		return "iface"
	case *types.Signature:
		return "func"
	case *types.Chan:
		return "chan"
	case *types.Struct:
		if dt, _, ok := tm.StructOf(t); ok {
			return dt
		}
		return "opaque." + sanitize(typeFullName(t))
	}
	return sanitize(string(tm.SortOf(t)))
}

// eComp: element heap of slices / arrays whose element type is t; pComp: cells holding a t behind a plain pointer
func (ex *Exec) eComp(t types.Type) string { return "E." + ex.tm.CompName(t) }
func (ex *Exec) pComp(t types.Type) string { return "P." + ex.tm.CompName(t) }

var byteType = types.Typ[types.Uint8]

func (fr *Frame) loopOpaque(st *State, li *loopInfo) {
	ct := fr.contract
	if ct == nil {
		ct = fr.ex.W.contracts[fr.key()]
	}
	if ct == nil {
		return
	}
	ex := fr.ex
	for _, cl := range ct.Invs {
		if cl.Kind != "opaque" || cl.Loop != li.ord || !cl.HasTag(ex.prop) {
			continue
		}
		for _, name := range strings.Split(cl.Text, ",") {
			name = strings.TrimSpace(name)
			if name == "" {
				continue
			}
			// the SSA value currently standing for the variable
			var val ssa.Value
			best := -1
			for _, d := range fr.debug[name] {
				if d.IsAddr {
					continue
				}
				in, ok := d.X.(ssa.Instruction)
				if !ok {
					continue
				}
				if _, isPhi := d.X.(*ssa.Phi); isPhi && in.Block() == li.header {
					continue
				}
				if in.Block().Dominates(li.header) && in.Block() != li.header && in.Block().Index > best {
					if _, have := fr.env[d.X]; have {
						best = in.Block().Index
						val = d.X
					}
				}
			}
			if val == nil {
				ex.W.contractError(cl, fmtErrorf("loop opaque: no loop-invariant value named %s", name))
				continue
			}
			v := ex.f.Fresh("opaque."+name, ex.tm.SortOf(val.Type()))
			ex.typedFacts(st, v, val.Type())
			fr.env[val] = v
		}
	}
}

// isSdkMathAlias: a call through one of the cosmos-sdk types package-level function variables that alias
// cosmossdk.io/math constructors (sdk.NewInt, sdk.OneDec, ...): pure.
func isSdkMathAlias(v ssa.Value) bool {
	u, ok := v.(*ssa.UnOp)
	if !ok {
		return false
	}
	g, ok := u.X.(*ssa.Global)
	if !ok || g.Pkg == nil || g.Pkg.Pkg.Path() != "github.com/cosmos/cosmos-sdk/types" {
		return false
	}
	for _, name := range []string{"cosmossdk.io/math." + g.Name(), "cosmossdk.io/math.Legacy" + g.Name()} {
		if _, ok := libModels[name]; ok {
			return true
		}
	}
	return isPureExternal("cosmossdk.io/math." + g.Name())
}

// globalInitValue: the value a package-level variable gets in its package's init function when that is a call of
// a modelled constructor on constants (var Max = sdk.NewDec(2)), or a constant. The variable is assumed never
// to be reassigned (listed as an assumption when used).
func (ex *Exec) globalInitValue(fr *Frame, st *State, g *ssa.Global) *Term {
	W := ex.W
	if W.globalInits == nil {
		W.globalInits = map[*ssa.Global]ssa.Value{}
		for _, sp := range W.spkgs {
			initFn := sp.Func("init")
			if initFn == nil {
				continue
			}
			for _, b := range initFn.Blocks {
				for _, in := range b.Instrs {
					if s, ok := in.(*ssa.Store); ok {
						if gl, ok := s.Addr.(*ssa.Global); ok {
							if _, dup := W.globalInits[gl]; dup {
								W.globalInits[gl] = nil // stored more than once: unknown
							} else {
								W.globalInits[gl] = s.Val
							}
						}
					}
				}
			}
		}
	}
	v := W.globalInits[g]
	if v == nil {
		return nil
	}
	switch x := v.(type) {
	case *ssa.Const:
		return ex.constTerm(x)
	case *ssa.Call:
		cc := x.Common()
		var args []*Term
		for _, a := range cc.Args {
			c, ok := a.(*ssa.Const)
			if !ok {
				return nil
			}
			args = append(args, ex.constTerm(c))
		}
		var names []string
		if callee := cc.StaticCallee(); callee != nil {
			names = []string{callee.String()}
		} else if u, ok := cc.Value.(*ssa.UnOp); ok {
			if gg, ok := u.X.(*ssa.Global); ok && gg.Pkg != nil && gg.Pkg.Pkg.Path() == "github.com/cosmos/cosmos-sdk/types" {
				names = []string{"cosmossdk.io/math." + gg.Name(), "cosmossdk.io/math.Legacy" + gg.Name()}
			}
		}
		for _, n := range names {
			if m, ok := libModels[n]; ok {
				scratch := st.clone()
				if res, ok := m(fr, scratch, cc, args); ok && len(res) == 1 {
					return res[0]
				}
			}
		}
	}
	return nil
}

func init() {
	// LegacyDec operations on scaled integers, for use in contracts (same definitions as the library models)
	extraSpecFuncs["decmul"] = func(ctx *EvalCtx, a []CV) CV {
		ex := ctx.ex
		return CV{ex.roundHalfEvenDiv(ex.f.Mul(a[0].t, a[1].t), ex.decP()), nil}
	}
	extraSpecFuncs["decquo"] = func(ctx *EvalCtx, a []CV) CV {
		ex := ctx.ex
		return CV{ex.roundHalfEvenDiv(ex.f.Mul(a[0].t, ex.decP()), a[1].t), nil}
	}
	extraSpecFuncs["dec"] = func(ctx *EvalCtx, a []CV) CV { // dec(n): the integer n as a LegacyDec
		return CV{ctx.ex.f.Mul(a[0].t, ctx.ex.decP()), nil}
	}
}

func init() {
	// upd2(a, i, j, v): the two-level array a with a[i][j] replaced by v
	extraSpecFuncs["upd2"] = func(ctx *EvalCtx, a []CV) CV {
		f := ctx.ex.f
		return CV{f.Store(a[0].t, a[1].t, f.Store(f.Select(a[0].t, a[1].t), a[2].t, a[3].t)), nil}
	}
	extraSpecFuncs["upd"] = func(ctx *EvalCtx, a []CV) CV {
		return CV{ctx.ex.f.Store(a[0].t, a[1].t, a[2].t), nil}
	}
}


// protoMarshalModel: Marshal() of a generated protobuf message (file *.pb.go) returns a fresh byte slice whose
// contents are a function of the message value (trusted: the wire encoding is deterministic; shallow like
// protoStringModel). For a message whose fields are all scalars or strings the error is nil.
func (fr *Frame) protoMarshalModel(st *State, callee *ssa.Function, args []*Term) ([]*Term, bool) {
	ex := fr.ex
	f := ex.f
	if callee.Name() != "Marshal" || len(args) != 1 || callee.Signature.Recv() == nil || callee.Signature.Params().Len() != 0 || callee.Signature.Results().Len() != 2 {
		return nil, false
	}
	pos := ex.W.prog.Fset.Position(callee.Pos())
	if !strings.HasSuffix(pos.Filename, ".pb.go") {
		return nil, false
	}
	rt := callee.Signature.Recv().Type()
	val := args[0]
	t := rt
	if pt, ok := types.Unalias(rt).Underlying().(*types.Pointer); ok {
		val = ex.load(st, args[0], pt.Elem())
		t = pt.Elem()
	}
	dt, stt, ok := ex.tm.StructOf(t)
	if !ok {
		return nil, false
	}
	ex.trustedUsed["lib:generated protobuf Marshal() returns bytes that are a function of the message value (shallow): "+callee.String()] = true
	content := f.App("protoMarshal."+dt, SStr, val)
	ex.assume(st, f.Ge(ex.tm.StrLen(content), f.Int(0)))
	plain := true
	for i := 0; i < stt.NumFields(); i++ {
		if _, ok := types.Unalias(stt.Field(i).Type()).Underlying().(*types.Basic); !ok {
			plain = false
		}
	}
	var errT *Term
	if plain {
		errT = f.Int(0)
	} else {
		errT = f.Fresh("marshal.err", SInt)
		ex.assume(st, f.Ge(errT, f.Int(0)))
	}
	bs := ex.newBytesOf(st, content)
	return []*Term{bs, errT}, true
}

// newBytesOf: a freshly allocated byte slice holding the bytes of the string s
func (ex *Exec) newBytesOf(st *State, s *Term) *Term {
	f := ex.f
	r := ex.alloc(st)
	ex.assume(st, f.Gt(r, f.Int(0)))
	n := ex.tm.StrLen(s)
	e := ex.comp(st, "E.uint8", ArraySort(SInt, ArraySort(SInt, SInt)))
	arr := f.App("str.bytes_", ArraySort(SInt, SInt), s)
	ex.setComp(st, "E.uint8", f.Store(e, r, arr))
	ex.assumes = append(ex.assumes, f.Eq(f.App("str.frombytes_", SStr, arr, f.Int(0), n), s))
	return f.Mk("Slice", r, f.Int(0), n, n)
}
