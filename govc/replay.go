package main

// Replay of solver counterexamples against the real code with `go test -overlay`.

import (
	"bytes"
	"context"
	"encoding/json"
	"fmt"
	"math/big"
	"os"
	"os/exec"
	"path/filepath"
	"regexp"
	"strings"
	"text/template"
	"time"
)

type ReplayFile struct {
	Property    string            `json:"property"`
	Obligation  string            `json:"obligation"`
	Kind        string            `json:"kind"`
	Function    string            `json:"function"`
	Clause      string            `json:"clause,omitempty"`
	ClauseAt    string            `json:"clause_at,omitempty"`
	Status      string            `json:"solver_status"`
	Solver      string            `json:"solver"`
	PerSolver   map[string]string `json:"per_solver"`
	Note        string            `json:"note,omitempty"`
	Model       map[string]string `json:"model,omitempty"`
	SolverOut   string            `json:"solver_output,omitempty"`
	SMTFile     string            `json:"smt_file"`
	Reproduced  bool              `json:"reproduced"`
	ReplayTest  string            `json:"replay_test_source,omitempty"`
	ReplayOut   string            `json:"replay_output,omitempty"`
	ReplayCmd   string            `json:"replay_cmd,omitempty"`
	NoFailingInputFound bool      `json:"no_failing_input_found"`
}

func replayReproduced(path string) bool {
	data, err := os.ReadFile(path)
	if err != nil {
		return false
	}
	var rf ReplayFile
	if json.Unmarshal(data, &rf) != nil {
		return false
	}
	return rf.Reproduced
}

var reNum = regexp.MustCompile(`^\(-\s*(\d+)\)$`)

// normalise SMT numerals "(- 5)" -> "-5"
func smtValue(v string) string {
	v = strings.TrimSpace(v)
	if m := reNum.FindStringSubmatch(v); m != nil {
		return "-" + m[1]
	}
	return v
}

func writeReplay(prop string, o *Obligation, r *oblResult, W *World, note string) string {
	dir := filepath.Join(verifDir, "evidence", "replays", prop)
	os.MkdirAll(dir, 0o755)
	path := filepath.Join(dir, sanitizeFile(o.Name)+".json")
	res := r.res
	if r.outside != nil && r.outside.Status != "unsat" {
		res = r.outside
	}
	rf := &ReplayFile{Property: prop, Obligation: o.Name, Kind: o.Kind, Function: o.Fn, Status: res.Status, Solver: res.Solver, PerSolver: res.All, Note: note, SMTFile: res.File}
	if o.Clause != nil {
		rf.Clause = o.Clause.Text
		rf.ClauseAt = fmt.Sprintf("%s:%d", rel(o.Clause.File), o.Clause.Line)
	}
	if res.Status == "sat" {
		rf.Model = map[string]string{}
		for k, v := range res.Model {
			rf.Model[k] = smtValue(v)
		}
		out := res.Output
		if len(out) > 20000 {
			out = out[:20000] + "…"
		}
		rf.SolverOut = out
		tryReplay(rf, o, W)
	} else {
		rf.SolverOut = res.Output
	}
	rf.NoFailingInputFound = !rf.Reproduced
	b, _ := json.MarshalIndent(rf, "", " ")
	os.WriteFile(path, append(b, '\n'), 0o644)
	return path
}

// Replay templates: /verif/replay/<function key>.tmpl — a Go test source (text/template) that builds the
// model's inputs, calls the real function and prints REPRODUCED when the postcondition is violated.
// First line: "// pkgdir: x/pairing/keeper" (directory the test file is injected into).
func tryReplay(rf *ReplayFile, o *Obligation, W *World) {
	tdir := filepath.Join(verifDir, "replay")
	key := strings.TrimPrefix(o.Fn, lavaMod+"/")
	cands := []string{
		filepath.Join(tdir, sanitizeFile(key+"__"+obligationTail(o.Name))+".tmpl"),
		filepath.Join(tdir, sanitizeFile(key)+".tmpl"),
	}
	var src []byte
	for _, c := range cands {
		if b, err := os.ReadFile(c); err == nil {
			src = b
			break
		}
	}
	if src == nil {
		rf.ReplayOut = "no replay template for " + key
		return
	}
	first := strings.SplitN(string(src), "\n", 2)[0]
	pkgdir := strings.TrimSpace(strings.TrimPrefix(first, "// pkgdir:"))
	funcs := template.FuncMap{
		"M": func(name string, def string) string {
			for _, k := range []string{"in." + name, name} {
				if v, ok := rf.Model[k]; ok && v != "" {
					return v
				}
			}
			return def
		},
		"U64": func(name string, def string) string {
			v := def
			for _, k := range []string{name, "in." + name} {
				if x, ok := rf.Model[k]; ok {
					v = x
				}
			}
			b, ok := new(big.Int).SetString(v, 10)
			if !ok {
				return def
			}
			return new(big.Int).Mod(b, new(big.Int).Lsh(big.NewInt(1), 64)).String()
		},
		"Bool": func(name string, def string) string {
			if v, ok := rf.Model[name]; ok {
				return v
			}
			return def
		},
	}
	tmpl, err := template.New("replay").Funcs(funcs).Parse(string(src))
	if err != nil {
		rf.ReplayOut = "template error: " + err.Error()
		return
	}
	var buf bytes.Buffer
	if err := tmpl.Execute(&buf, rf); err != nil {
		rf.ReplayOut = "template error: " + err.Error()
		return
	}
	rf.ReplayTest = buf.String()
	tmp, err := os.MkdirTemp("", "govc-replay")
	if err != nil {
		rf.ReplayOut = err.Error()
		return
	}
	defer os.RemoveAll(tmp)
	testFile := filepath.Join(tmp, "zz_govc_replay_test.go")
	os.WriteFile(testFile, buf.Bytes(), 0o644)
	ov := map[string]map[string]string{"Replace": {filepath.Join(W.repo, pkgdir, "zz_govc_replay_test.go"): testFile}}
	ovb, _ := json.Marshal(ov)
	ovFile := filepath.Join(tmp, "ov.json")
	os.WriteFile(ovFile, ovb, 0o644)
	ctx, cancel := context.WithTimeout(context.Background(), 600*time.Second)
	defer cancel()
	args := []string{"test", "-overlay", ovFile, "-vet=off", "-count=1", "-timeout", "120s", "-run", "TestGovcReplay", "-v", "./" + pkgdir + "/"}
	cmd := exec.CommandContext(ctx, "go", args...)
	cmd.Dir = W.repo
	cmd.Env = append(os.Environ(), "GOFLAGS=-mod=mod", "GOPROXY=off", "GOSUMDB=off", "GOTOOLCHAIN=local")
	out, _ := cmd.CombinedOutput()
	rf.ReplayCmd = "cd /repo && go " + strings.Join(args, " ")
	s := string(out)
	if len(s) > 8000 {
		s = s[len(s)-8000:]
	}
	rf.ReplayOut = s
	rf.Reproduced = strings.Contains(string(out), "REPRODUCED")
}

func obligationTail(name string) string {
	i := strings.LastIndex(name, "/")
	if i < 0 {
		return name
	}
	return name[i+1:]
}
