package main

// Cone-of-influence slicing of the assumptions of an obligation (sound: assumptions are only dropped).

import "strings"

func termSymbols(t *Term, into map[string]bool, seen map[*Term]bool) {
	if seen[t] {
		return
	}
	seen[t] = true
	switch t.op {
	case "var":
		n := t.name
		if strings.HasPrefix(n, "frontier") || n == "A0" || strings.HasPrefix(n, "world") {
			return
		}
		into[n] = true
	case "app":
		if !strings.HasPrefix(t.name, "str.len_") {
			into["@"+t.name] = true
		}
	}
	for _, a := range t.args {
		termSymbols(a, into, seen)
	}
}

func (ex *Exec) slicedScript(o *Obligation) *Script {
	f := ex.f
	var items []*Term
	items = append(items, ex.assumes[:o.NAssume]...)
	if o.PC.op == "and" {
		items = append(items, o.PC.args...)
	} else {
		items = append(items, o.PC)
	}
	if len(items) < 40 {
		return nil
	}
	factSyms := make([]map[string]bool, len(items))
	for i, it := range items {
		m := map[string]bool{}
		fact := it
		if it.op == "=>" {
			fact = it.args[1]
		}
		termSymbols(fact, m, map[*Term]bool{})
		factSyms[i] = m
	}
	cur := map[string]bool{}
	termSymbols(o.Goal, cur, map[*Term]bool{})
	taken := make([]bool, len(items))
	for changed := true; changed; {
		changed = false
		for i := range items {
			if taken[i] {
				continue
			}
			hit := len(factSyms[i]) == 0 && false
			for s := range factSyms[i] {
				if cur[s] {
					hit = true
					break
				}
			}
			if hit {
				taken[i] = true
				changed = true
				for s := range factSyms[i] {
					cur[s] = true
				}
			}
		}
	}
	n := 0
	sc := &Script{f: f}
	for i, it := range items {
		if taken[i] {
			sc.asserts = append(sc.asserts, it)
			n++
		}
	}
	if n*10 > len(items)*9 {
		return nil // nothing gained
	}
	sc.asserts = append(sc.asserts, f.Not(o.Goal))
	return sc
}
