package main

// Trusted library specifications (assumed contracts on dependencies).
// Every model used by a run is listed in that run's evidence.

import (
	"go/types"
	"math/big"
	"strings"

	"golang.org/x/tools/go/ssa"
)

type LibFn func(fr *Frame, st *State, c *ssa.CallCommon, args []*Term) ([]*Term, bool)

var libModels = map[string]LibFn{}
var libWrites = map[string][]string{}

func libModel(ex *Exec, name string) LibFn {
	if m, ok := libModels[name]; ok {
		ex.trustedUsed["lib:"+name] = true
		return m
	}
	return nil
}

func libAssigns(name string) []string { return libWrites[name] }

// Functions of dependencies assumed to have no effect on modelled state; results unconstrained
// (beyond their types).
var pureExternalPrefixes = []string{
	"fmt.", "strconv.", "strings.", "errors.", "bytes.", "unicode", "math.", "math/bits.", "sort.Search",
	"(*strings.Builder).", "(strings.Builder).", "(*bytes.Buffer).", "encoding/hex.", "encoding/base64.", "encoding/binary.",
	"(encoding/binary.", "time.Now", "time.Since", "time.Unix", "(time.Time).", "(time.Duration).", "(*time.Time).",
	"github.com/lavanet/lava/v5/utils.LogAttr", "github.com/lavanet/lava/v5/utils.LavaFormat", "github.com/lavanet/lava/v5/utils.LogLavaEvent",
	"github.com/lavanet/lava/v5/utils.StrValue", "github.com/lavanet/lava/v5/utils.IsTraceLogLevelEnabled", "github.com/lavanet/lava/v5/utils.IsDebugEnabled",
	"github.com/lavanet/lava/v5/utils.FormatStringerList", "github.com/lavanet/lava/v5/utils.FormatLongString", "github.com/lavanet/lava/v5/utils.ToHexString",
	"github.com/lavanet/lava/v5/utils.StringMapToAttributes",
	"cosmossdk.io/errors.", "(*cosmossdk.io/errors.", "github.com/cosmos/cosmos-sdk/types/errors.",
	"(github.com/cosmos/cosmos-sdk/types.Context).", "(github.com/cosmos/cosmos-sdk/types.AccAddress).", "(github.com/cosmos/cosmos-sdk/types.ValAddress).",
	"github.com/cosmos/cosmos-sdk/types.AccAddressFromBech32", "github.com/cosmos/cosmos-sdk/types.ValAddressFromBech32", "github.com/cosmos/cosmos-sdk/types.UnwrapSDKContext", "github.com/cosmos/cosmos-sdk/types.WrapSDKContext",
	"(github.com/cometbft/cometbft/libs/log.", "crypto/sha256.", "(*github.com/cosmos/cosmos-sdk/types.EventManager).",
	"github.com/cosmos/cosmos-sdk/types.NewEvent", "github.com/cosmos/cosmos-sdk/types.NewAttribute",
	"context.Background", "context.TODO", "(context.Context).",
	"reflect.", "(reflect.", "os.Getenv",
	"github.com/lavanet/lava/v5/utils/sigs.HashMsg",
	"(*github.com/lavanet/lava/v5/protocol/metrics.", "github.com/lavanet/lava/v5/protocol/metrics.",
	"github.com/cosmos/cosmos-sdk/types.NewCoin", "github.com/cosmos/cosmos-sdk/types.NewCoins",
	"(github.com/cosmos/cosmos-sdk/types.Coin).", "(github.com/cosmos/cosmos-sdk/types.Coins).", "(github.com/cosmos/cosmos-sdk/types.DecCoins).", "(github.com/cosmos/cosmos-sdk/types.DecCoin).",
	"github.com/cosmos/cosmos-sdk/types.NewDecCoin", "github.com/cosmos/cosmos-sdk/types.NewDecCoins",
	"(cosmossdk.io/math.Int).", "(cosmossdk.io/math.LegacyDec).", "cosmossdk.io/math.", "(cosmossdk.io/math.Uint).",
	"github.com/cosmos/gogoproto/proto.", "github.com/gogo/protobuf/proto.", "github.com/golang/protobuf/proto.", "google.golang.org/protobuf/proto.",
	"github.com/lavanet/lava/v5/protocol/parser.CapStringLen", "github.com/lavanet/lava/v5/utils/common/types.ValidateString",
	"unicode/utf8.", "slices.", "maps.", "golang.org/x/exp/slices.", "golang.org/x/exp/maps.",
	"github.com/cosmos/cosmos-sdk/types.AccAddressFromHexUnsafe", "(*github.com/cosmos/cosmos-sdk/crypto/keys/secp256k1.PubKey).",
	"(github.com/cometbft/cometbft/libs/bytes.HexBytes).", "(github.com/cometbft/cometbft/crypto.Address).",
	"github.com/btcsuite/btcd/btcec/v2/ecdsa.RecoverCompact", "(*github.com/btcsuite/btcd/btcec/v2.PublicKey).",
	"github.com/decred/dcrd/dcrec/secp256k1/v4/ecdsa.RecoverCompact", "(*github.com/decred/dcrd/dcrec/secp256k1/v4.PublicKey).", "(github.com/decred/dcrd/dcrec/secp256k1/v4.PublicKey).",
}

// always-non-nil error results
var nonNilErr = []string{
	"fmt.Errorf", "errors.New", "github.com/lavanet/lava/v5/utils.LavaFormatError", "github.com/lavanet/lava/v5/utils.LavaFormatWarning",
	"github.com/lavanet/lava/v5/utils.LavaFormatInfo", "github.com/lavanet/lava/v5/utils.LavaFormatDebug", "github.com/lavanet/lava/v5/utils.LavaFormatTrace",
	"github.com/lavanet/lava/v5/utils.LavaFormatProduction", "github.com/lavanet/lava/v5/utils.LavaFormatLog",
}

func isPureExternal(name string) bool {
	for _, p := range pureExternalPrefixes {
		if strings.HasPrefix(name, p) {
			return true
		}
	}
	return false
}

var pureIfacePrefixes = []string{
	"(error).Error", "fmt.(Stringer).String", "context.(Context).", "github.com/cometbft/cometbft/libs/log.(Logger).",
	"(interface).String", "(interface).Error",
	"go.opentelemetry.io/otel/trace.(Span).",
}

func pureIface(key string) bool {
	for _, p := range pureIfacePrefixes {
		if strings.HasPrefix(key, p) {
			return true
		}
	}
	return false
}

func reg(name string, fn LibFn, writes ...string) {
	libModels[name] = fn
	libWrites[name] = writes
}

func init() {
	for _, n := range nonNilErr {
		name := n
		reg(name, func(fr *Frame, st *State, c *ssa.CallCommon, args []*Term) ([]*Term, bool) {
			ex := fr.ex
			r := ex.f.Fresh("err", SInt)
			ex.assume(st, ex.f.Gt(r, ex.f.Int(0)))
			return []*Term{r}, true
		})
	}
	reg("github.com/lavanet/lava/v5/utils.LavaFormatPanic", func(fr *Frame, st *State, c *ssa.CallCommon, args []*Term) ([]*Term, bool) {
		st.pc = fr.ex.f.False()
		return nil, true
	})
	reg("github.com/lavanet/lava/v5/utils.LavaFormatFatal", func(fr *Frame, st *State, c *ssa.CallCommon, args []*Term) ([]*Term, bool) {
		st.pc = fr.ex.f.False()
		return nil, true
	})
	// sync primitives: no effect on sequentially modelled state (the monitor view is declared per contract)
	for _, n := range []string{"(*sync.Mutex).Lock", "(*sync.Mutex).Unlock", "(*sync.RWMutex).Lock", "(*sync.RWMutex).Unlock", "(*sync.RWMutex).RLock", "(*sync.RWMutex).RUnlock",
		"(*github.com/lavanet/lava/v5/utils.LavaMutex).Lock", "(*github.com/lavanet/lava/v5/utils.LavaMutex).Unlock"} {
		reg(n, func(fr *Frame, st *State, c *ssa.CallCommon, args []*Term) ([]*Term, bool) { return nil, true })
	}
	for _, n := range []string{"(*sync.Mutex).TryLock", "(*sync.RWMutex).TryLock", "(*sync.RWMutex).TryRLock"} {
		reg(n, func(fr *Frame, st *State, c *ssa.CallCommon, args []*Term) ([]*Term, bool) {
			return []*Term{fr.ex.f.Fresh("trylock", SBool)}, true
		})
	}
	reg("(*github.com/lavanet/lava/v5/utils.LavaMutex).TryLock", func(fr *Frame, st *State, c *ssa.CallCommon, args []*Term) ([]*Term, bool) {
		return []*Term{fr.ex.f.Fresh("trylock", SBool)}, true
	})
	regAtomics()
	regAtomicTypes()
	regMath()
	regStrings()
}

func u64type() types.Type { return types.Typ[types.Uint64] }

func regAtomics() {
	load := func(t types.Type) LibFn {
		return func(fr *Frame, st *State, c *ssa.CallCommon, args []*Term) ([]*Term, bool) {
			fr.interfere(st, args[0], t)
			v := fr.ex.load(st, args[0], t)
			fr.ex.assume(st, fr.ex.tm.WellTyped(v, t, 1))
			return []*Term{v}, true
		}
	}
	storeF := func(t types.Type) LibFn {
		return func(fr *Frame, st *State, c *ssa.CallCommon, args []*Term) ([]*Term, bool) {
			fr.ex.store(st, args[0], t, args[1])
			return nil, true
		}
	}
	add := func(t types.Type) LibFn {
		return func(fr *Frame, st *State, c *ssa.CallCommon, args []*Term) ([]*Term, bool) {
			ex := fr.ex
			fr.interfere(st, args[0], t)
			v := ex.load(st, args[0], t)
			ex.assume(st, ex.tm.WellTyped(v, t, 1))
			nv := ex.wrap1(ex.f.Add(v, args[1]), t)
			ex.store(st, args[0], t, nv)
			return []*Term{nv}, true
		}
	}
	cas := func(t types.Type) LibFn {
		return func(fr *Frame, st *State, c *ssa.CallCommon, args []*Term) ([]*Term, bool) {
			ex := fr.ex
			f := ex.f
			fr.interfere(st, args[0], t)
			v := ex.load(st, args[0], t)
			ex.assume(st, ex.tm.WellTyped(v, t, 1))
			ok := f.Eq(v, args[1])
			ex.store(st, args[0], t, f.Ite(ok, args[2], v))
			return []*Term{ok}, true
		}
	}
	for name, t := range map[string]types.Type{"Uint64": types.Typ[types.Uint64], "Int64": types.Typ[types.Int64], "Uint32": types.Typ[types.Uint32], "Int32": types.Typ[types.Int32]} {
		w := "P.Int"
		reg("sync/atomic.Load"+name, load(t))
		reg("sync/atomic.Store"+name, storeF(t), w)
		reg("sync/atomic.Add"+name, add(t), w)
		reg("sync/atomic.CompareAndSwap"+name, cas(t), w)
	}
}

// typed atomics (atomic.Bool, atomic.Int64, ...): each operation is one step on the cell behind the receiver
func regAtomicTypes() {
	kinds := map[string]types.Type{"Bool": types.Typ[types.Bool], "Int64": types.Typ[types.Int64], "Uint64": types.Typ[types.Uint64], "Int32": types.Typ[types.Int32], "Uint32": types.Typ[types.Uint32]}
	for name, t := range kinds {
		t := t
		w := "P." + sanitize(string(SInt))
		if name == "Bool" {
			w = "P.Bool"
		}
		pre := "(*sync/atomic." + name + ")."
		reg(pre+"Load", func(fr *Frame, st *State, c *ssa.CallCommon, args []*Term) ([]*Term, bool) {
			fr.interfere(st, args[0], t)
			v := fr.ex.load(st, args[0], t)
			fr.ex.assume(st, fr.ex.tm.WellTyped(v, t, 1))
			return []*Term{v}, true
		})
		reg(pre+"Store", func(fr *Frame, st *State, c *ssa.CallCommon, args []*Term) ([]*Term, bool) {
			fr.ex.store(st, args[0], t, args[1])
			return nil, true
		}, w)
		reg(pre+"Swap", func(fr *Frame, st *State, c *ssa.CallCommon, args []*Term) ([]*Term, bool) {
			fr.interfere(st, args[0], t)
			v := fr.ex.load(st, args[0], t)
			fr.ex.store(st, args[0], t, args[1])
			return []*Term{v}, true
		}, w)
		reg(pre+"CompareAndSwap", func(fr *Frame, st *State, c *ssa.CallCommon, args []*Term) ([]*Term, bool) {
			ex := fr.ex
			fr.interfere(st, args[0], t)
			v := ex.load(st, args[0], t)
			ok := ex.f.Eq(v, args[1])
			ex.store(st, args[0], t, ex.f.Ite(ok, args[2], v))
			return []*Term{ok}, true
		}, w)
		if name != "Bool" {
			reg(pre+"Add", func(fr *Frame, st *State, c *ssa.CallCommon, args []*Term) ([]*Term, bool) {
				ex := fr.ex
				fr.interfere(st, args[0], t)
				v := ex.load(st, args[0], t)
				ex.assume(st, ex.tm.WellTyped(v, t, 1))
				nv := ex.wrap1(ex.f.Add(v, args[1]), t)
				ex.store(st, args[0], t, nv)
				return []*Term{nv}, true
			}, w)
		}
	}
}

var pow64 = new(big.Int).Lsh(big.NewInt(1), 64)

func regMath() {
}

func regStrings() {
	reg("strconv.FormatUint", func(fr *Frame, st *State, c *ssa.CallCommon, args []*Term) ([]*Term, bool) {
		ex := fr.ex
		r := ex.f.App("strconv.FormatUint_", SStr, args[0], args[1])
		ex.assume(st, ex.f.Ge(ex.tm.StrLen(r), ex.f.Int(1)))
		return []*Term{r}, true
	})
	reg("strconv.FormatInt", func(fr *Frame, st *State, c *ssa.CallCommon, args []*Term) ([]*Term, bool) {
		ex := fr.ex
		r := ex.f.App("strconv.FormatInt_", SStr, args[0], args[1])
		ex.assume(st, ex.f.Ge(ex.tm.StrLen(r), ex.f.Int(1)))
		return []*Term{r}, true
	})
	reg("strconv.Itoa", func(fr *Frame, st *State, c *ssa.CallCommon, args []*Term) ([]*Term, bool) {
		ex := fr.ex
		r := ex.f.App("strconv.FormatInt_", SStr, args[0], ex.f.Int(10))
		ex.assume(st, ex.f.Ge(ex.tm.StrLen(r), ex.f.Int(1)))
		return []*Term{r}, true
	})
}

// ---------- functions usable inside contracts

type SpecFn func(ctx *EvalCtx, args []CV) CV

func specFunc(ex *Exec, name string) SpecFn {
	switch name {
	case "pow10_18":
		return func(ctx *EvalCtx, args []CV) CV {
			return CV{ex.f.BigInt(new(big.Int).Exp(big.NewInt(10), big.NewInt(18), nil)), nil}
		}
	}
	return specFuncExtra(ex, name)
}

func specMethod(ex *Exec, recv CV, name string) SpecFn {
	return specMethodExtra(ex, recv, name)
}
