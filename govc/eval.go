package main

// Evaluation of contract expressions (Go expression syntax + ==>, <==>, old, forall, exists, ghost functions).

import (
	"fmt"
	"go/ast"
	"go/constant"
	"go/parser"
	"go/token"
	"go/types"
	"math/big"
	"strconv"
	"strings"

	"golang.org/x/tools/go/ssa"
)

type CV struct {
	t   *Term
	typ types.Type // nil for mathematical values
}

type EvalCtx struct {
	ex       *Exec
	fn       *ssa.Function // function whose package scope resolves qualified names
	calleeFn *ssa.Function
	st       *State
	old      *State
	vars     map[string]CV
	frame    *Frame
	block    *ssa.BasicBlock
	inOld    bool
	tuples   map[*Term][]CV
	altBlock *ssa.BasicBlock       // body block whose definitions are visible too (loop step clauses)
	prevPhis map[*ssa.Phi]*Term    // header values of the loop-carried variables, for prev(e)
	prevState *State
}

func (ex *Exec) newEvalCtx(fn *ssa.Function, st, old *State) *EvalCtx {
	return &EvalCtx{ex: ex, fn: fn, st: st, old: old, vars: map[string]CV{}}
}

// evalCtx for a point inside a frame (invariants, asserts): parameters and named locals visible.
func (fr *Frame) evalCtx(st *State, b *ssa.BasicBlock) *EvalCtx {
	ctx := fr.ex.newEvalCtx(fr.fn, st, fr.entry)
	ctx.frame = fr
	ctx.block = b
	for _, p := range fr.fn.Params {
		ctx.vars[p.Name()] = CV{fr.val(p), p.Type()}
	}
	for _, p := range fr.fn.FreeVars {
		// captured variables are pointers to the variable
		if pt, ok := p.Type().(*types.Pointer); ok {
			ctx.vars[p.Name()] = CV{fr.ex.load(st, fr.val(p), pt.Elem()), pt.Elem()}
		}
	}
	return ctx
}

func (ctx *EvalCtx) bindResults(sig *types.Signature, res []*Term) {
	rs := sig.Results()
	for i := 0; i < rs.Len() && i < len(res); i++ {
		ctx.vars[fmt.Sprintf("res%d", i)] = CV{res[i], rs.At(i).Type()}
		if n := rs.At(i).Name(); n != "" && n != "_" {
			ctx.vars[n] = CV{res[i], rs.At(i).Type()}
		}
		if i == rs.Len()-1 && isErrorType(rs.At(i).Type()) {
			if _, taken := ctx.vars["err"]; !taken || rs.At(i).Name() == "err" {
				ctx.vars["err"] = CV{res[i], rs.At(i).Type()}
			}
		}
	}
	if rs.Len() == 1 {
		ctx.vars["res"] = CV{res[0], rs.At(0).Type()}
	}
}

func isErrorType(t types.Type) bool {
	n, ok := types.Unalias(t).(*types.Named)
	return ok && n.Obj().Pkg() == nil && n.Obj().Name() == "error"
}

func (ctx *EvalCtx) evalBool(text string) (*Term, error) {
	cv, err := ctx.evalText(text)
	if err != nil {
		return nil, err
	}
	if cv.t.sort != SBool {
		return nil, fmt.Errorf("contract expression is not boolean: %s", text)
	}
	return cv.t, nil
}

func (ctx *EvalCtx) evalText(text string) (cv CV, err error) {
	defer func() {
		if r := recover(); r != nil {
			err = fmt.Errorf("evaluating %q: %v", text, r)
		}
	}()
	text = strings.TrimSpace(text)
	if l, r, ok := splitTop(text, "<==>"); ok {
		a, err := ctx.evalText(l)
		if err != nil {
			return CV{}, err
		}
		b, err := ctx.evalText(r)
		if err != nil {
			return CV{}, err
		}
		return CV{ctx.ex.f.Eq(a.t, b.t), nil}, nil
	}
	if l, r, ok := splitTop(text, "==>"); ok {
		a, err := ctx.evalText(l)
		if err != nil {
			return CV{}, err
		}
		b, err := ctx.evalText(r)
		if err != nil {
			return CV{}, err
		}
		return CV{ctx.ex.f.Implies(a.t, b.t), nil}, nil
	}
	// implications nested in parentheses / call arguments are rewritten to imp(a, b)
	text = rewriteNestedImplies(text)
	e, perr := parser.ParseExpr(text)
	if perr != nil {
		return CV{}, fmt.Errorf("parse %q: %v", text, perr)
	}
	return ctx.eval(e), nil
}

// rewriteNestedImplies turns "(a ==> b)" inside brackets into "imp(a, b)".
func rewriteNestedImplies(s string) string {
	for {
		idx := -1
		depth := 0
		inStr := byte(0)
		for i := 0; i < len(s); i++ {
			ch := s[i]
			if inStr != 0 {
				if ch == '\\' {
					i++
				} else if ch == inStr {
					inStr = 0
				}
				continue
			}
			switch ch {
			case '"', '\'', '`':
				inStr = ch
			case '(', '[':
				depth++
			case ')', ']':
				depth--
			}
			if depth > 0 && strings.HasPrefix(s[i:], "==>") && (i == 0 || s[i-1] != '<') {
				idx = i
				break
			}
		}
		if idx < 0 {
			return s
		}
		// find enclosing bracket segment boundaries: left to '(' or ',' at same depth, right to ')' or ','
		l := idx
		d := 0
		for l > 0 {
			c := s[l-1]
			if c == ')' || c == ']' {
				d++
			} else if c == '(' || c == '[' {
				if d == 0 {
					break
				}
				d--
			} else if c == ',' && d == 0 {
				break
			}
			l--
		}
		r := idx + 3
		d = 0
		for r < len(s) {
			c := s[r]
			if c == '(' || c == '[' {
				d++
			} else if c == ')' || c == ']' {
				if d == 0 {
					break
				}
				d--
			} else if c == ',' && d == 0 {
				break
			}
			r++
		}
		s = s[:l] + " imp(" + s[l:idx] + ", " + s[idx+3:r] + ")" + s[r:]
	}
}

func (ctx *EvalCtx) state() *State {
	if ctx.inOld {
		return ctx.old
	}
	return ctx.st
}

func (ctx *EvalCtx) fail(format string, a ...interface{}) {
	panic(fmt.Sprintf(format, a...))
}

func (ctx *EvalCtx) eval(e ast.Expr) CV {
	ex := ctx.ex
	f := ex.f
	switch x := e.(type) {
	case *ast.ParenExpr:
		return ctx.eval(x.X)
	case *ast.BasicLit:
		switch x.Kind {
		case token.INT:
			b, ok := new(big.Int).SetString(strings.ReplaceAll(x.Value, "_", ""), 0)
			if !ok {
				ctx.fail("bad integer %s", x.Value)
			}
			return CV{f.BigInt(b), nil}
		case token.STRING:
			s, _ := strconv.Unquote(x.Value)
			return CV{f.StrLit(s), types.Typ[types.String]}
		case token.FLOAT:
			return CV{f.RealLit(x.Value), nil}
		}
		ctx.fail("unsupported literal %s", x.Value)
	case *ast.Ident:
		return ctx.ident(x.Name)
	case *ast.UnaryExpr:
		v := ctx.eval(x.X)
		switch x.Op {
		case token.NOT:
			return CV{f.Not(v.t), nil}
		case token.SUB:
			return CV{f.Neg(v.t), nil}
		case token.AND: // address-of is transparent for struct literals we do not support; keep value
			return v
		}
		ctx.fail("unsupported unary %s", x.Op)
	case *ast.StarExpr:
		v := ctx.eval(x.X)
		pt, ok := types.Unalias(v.typ).Underlying().(*types.Pointer)
		if !ok {
			ctx.fail("dereference of non-pointer")
		}
		return CV{ctx.loadedInContract(ex.load(ctx.state(), v.t, pt.Elem()), pt.Elem()), pt.Elem()}
	case *ast.BinaryExpr:
		return ctx.binary(x)
	case *ast.SelectorExpr:
		return ctx.selector(x)
	case *ast.IndexExpr:
		return ctx.index(x)
	case *ast.CallExpr:
		return ctx.callExpr(x)
	case *ast.SliceExpr:
		ctx.fail("slice expressions are not supported in contracts")
	}
	ctx.fail("unsupported contract expression %T", e)
	return CV{}
}

func (ctx *EvalCtx) ident(name string) CV {
	ex := ctx.ex
	f := ex.f
	switch name {
	case "true":
		return CV{f.True(), nil}
	case "false":
		return CV{f.False(), nil}
	case "nil":
		return CV{f.Int(0), types.Typ[types.UntypedNil]}
	case "MaxUint64":
		return CV{f.BigInt(new(big.Int).Sub(new(big.Int).Lsh(big.NewInt(1), 64), big.NewInt(1))), nil}
	case "MaxInt64":
		return CV{f.BigInt(new(big.Int).Sub(new(big.Int).Lsh(big.NewInt(1), 63), big.NewInt(1))), nil}
	case "MinInt64":
		return CV{f.BigInt(new(big.Int).Neg(new(big.Int).Lsh(big.NewInt(1), 63))), nil}
	case "world":
		return CV{ctx.state().world, nil}
	case "rangeidx":
		// the hidden index of a range-over-slice loop: -1 before the first element, then 0,1,...
		if ctx.frame != nil && ctx.block != nil {
			for _, in := range ctx.block.Instrs {
				if p, ok := in.(*ssa.Phi); ok && p.Comment == "rangeindex" {
					return CV{ctx.frame.val(p), p.Type()}
				}
			}
			// the same loop written as 'for i := 0; i < n; i++': the index of the last element done is i-1
			if li := ctx.frame.loops[ctx.block]; li != nil {
				var found *ssa.Phi
				n := 0
				for _, in := range ctx.block.Instrs {
					if p, ok := in.(*ssa.Phi); ok && countsUp(p, li) && phiStartsAtZero(p, li) {
						found = p
						n++
					}
				}
				if n == 1 {
					return CV{f.Sub(ctx.frame.val(found), f.Int(1)), found.Type()}
				}
			}
		}
		ctx.fail("rangeidx used outside a range loop header")
	case "rangeseq":
		// the slice a range-over-slice loop walks (evaluated once before the loop, often an unnamed call result):
		// the operand of the len() the hidden index is compared with in the loop head
		if ctx.frame != nil && ctx.block != nil {
			for _, in := range ctx.block.Instrs {
				cmp, ok := in.(*ssa.BinOp)
				if !ok || cmp.Op != token.LSS {
					continue
				}
				inc, ok := cmp.X.(*ssa.BinOp)
				if !ok || inc.Op != token.ADD {
					continue
				}
				if p, ok := inc.X.(*ssa.Phi); !ok || p.Comment != "rangeindex" {
					continue
				}
				if call, ok := cmp.Y.(*ssa.Call); ok {
					if b, ok := call.Call.Value.(*ssa.Builtin); ok && b.Name() == "len" && len(call.Call.Args) == 1 {
						return CV{ctx.frame.val(call.Call.Args[0]), call.Call.Args[0].Type()}
					}
				}
			}
		}
		ctx.fail("rangeseq used outside a range-over-slice loop header")
	}
	if v, ok := ctx.vars[name]; ok {
		// a parameter that the function assigns to lives in a local cell; inside the body (invariants,
		// step clauses, site assertions) its current value is meant, in pre/postconditions its entry value
		if ctx.frame != nil && ctx.block != nil && !ctx.inOld {
			if cell := ctx.frame.paramCell(name); cell != nil {
				pt := types.Unalias(cell.Type()).Underlying().(*types.Pointer).Elem()
				if _, ok := ctx.frame.env[cell]; ok {
					return CV{ctx.ex.load(ctx.st, ctx.frame.val(cell), pt), pt}
				}
			}
			// ... or, when it is only reassigned, in the phi nodes go/ssa names after it
			if isParam(ctx.frame.fn, name) {
				if cv, ok := ctx.frame.phiByName(name, ctx.block); ok {
					return cv
				}
			}
		}
		return v
	}
	if ctx.frame != nil {
		if cv, ok := ctx.frame.localByName(ctx.st, name, ctx.block); ok {
			return cv
		}
		if ctx.altBlock != nil {
			if cv, ok := ctx.frame.localByName(ctx.st, name, ctx.altBlock); ok {
				return cv
			}
		}
	}
	// package-level constant of the function's own package
	if ctx.fn != nil && ctx.fn.Pkg != nil {
		if cv, ok := ctx.pkgMember(ctx.fn.Pkg.Pkg, name); ok {
			return cv
		}
	}
	if ctx.calleeFn != nil && ctx.calleeFn.Pkg != nil {
		if cv, ok := ctx.pkgMember(ctx.calleeFn.Pkg.Pkg, name); ok {
			return cv
		}
	}
	// step clauses are checked on every back edge; a local of the loop body that was not assigned on the
	// path to this edge has no value here: it reads as an arbitrary value of its type (the clause must
	// not depend on it on such an edge, e.g. by guarding it with the branch condition)
	// a variable that only lives in phi nodes here (e.g. a named result appended to in a loop)
	if ctx.frame != nil && ctx.block != nil {
		if cv, ok := ctx.frame.phiByName(name, ctx.block); ok {
			return cv
		}
	}
	// ... or in a local cell go/ssa did not lift to registers (named results of functions with defers)
	if ctx.frame != nil {
		for _, a := range ctx.frame.fn.Locals {
			if a.Comment == name {
				if _, ok := ctx.frame.env[a]; ok {
					pt := types.Unalias(a.Type()).Underlying().(*types.Pointer).Elem()
					return CV{ctx.ex.load(ctx.st, ctx.frame.val(a), pt), pt}
				}
			}
		}
	}
	if ctx.frame != nil && ctx.prevState != nil {
		// assigned on only some paths of this iteration: the value it got on those paths (the symbolic
		// execution keeps it; it is meaningful only under the branch condition, which the clause has to
		// state). The innermost (latest declared) variable of that name wins.
		var best *ssa.DebugRef
		// a variable of the same name declared after the loop (a later loop's range variable) is not meant: when some
		// definition of the name lies inside this loop's body, only those count
		var thisLoop *loopInfo
		if ctx.block != nil {
			thisLoop = ctx.frame.loops[ctx.block]
		}
		inBody := func(d *ssa.DebugRef) bool {
			in, ok := d.X.(ssa.Instruction)
			return ok && thisLoop != nil && thisLoop.body[in.Block()]
		}
		anyInBody := false
		for _, d := range ctx.frame.debug[name] {
			if _, isVar := d.Object().(*types.Var); isVar && !d.IsAddr && inBody(d) {
				if _, ok := ctx.frame.env[d.X]; ok {
					anyInBody = true
				}
			}
		}
		for _, d := range ctx.frame.debug[name] {
			if _, isVar := d.Object().(*types.Var); !isVar || d.IsAddr {
				continue
			}
			if _, ok := ctx.frame.env[d.X]; !ok {
				continue
			}
			if anyInBody && !inBody(d) {
				continue
			}
			if best == nil || d.Object().Pos() > best.Object().Pos() || (d.Object().Pos() == best.Object().Pos() && d.Pos() > best.Pos()) {
				best = d
			}
		}
		if best != nil {
			return CV{ctx.frame.val(best.X), best.X.Type()}
		}
		for _, d := range ctx.frame.debug[name] {
			if v, isVar := d.Object().(*types.Var); isVar {
				return CV{ctx.ex.freshOf(ctx.st, "unassigned."+name, v.Type()), v.Type()}
			}
		}
	}
	ctx.fail("unknown identifier %s", name)
	return CV{}
}

func (ctx *EvalCtx) pkgMember(pkg *types.Package, name string) (CV, bool) {
	obj := pkg.Scope().Lookup(name)
	if obj == nil {
		return CV{}, false
	}
	switch o := obj.(type) {
	case *types.Const:
		return ctx.constCV(o), true
	case *types.Var:
		// package-level variable: its address is the global
		g := ctx.ex.f.Var("glob."+sanitize(pkg.Path()+"."+name), SInt)
		return CV{ctx.ex.load(ctx.state(), g, o.Type()), o.Type()}, true
	}
	return CV{}, false
}

func (ctx *EvalCtx) constCV(o *types.Const) CV {
	f := ctx.ex.f
	v := o.Val()
	switch v.Kind() {
	case constant.Int:
		b, _ := new(big.Int).SetString(v.ExactString(), 10)
		return CV{f.BigInt(b), o.Type()}
	case constant.Bool:
		return CV{f.Bool(constant.BoolVal(v)), o.Type()}
	case constant.String:
		return CV{f.StrLit(constant.StringVal(v)), o.Type()}
	case constant.Float:
		r := constant.ToFloat(v)
		nb, _ := new(big.Int).SetString(constant.Num(r).ExactString(), 10)
		db, _ := new(big.Int).SetString(constant.Denom(r).ExactString(), 10)
		if db.Cmp(big.NewInt(1)) == 0 {
			return CV{f.Real(nb), o.Type()}
		}
		return CV{f.RDiv(f.Real(nb), f.Real(db)), o.Type()}
	}
	ctx.fail("unsupported constant %s", o.Name())
	return CV{}
}

// localByName finds the SSA value of a named local variable visible at block b.
func (fr *Frame) localByName(st *State, name string, b *ssa.BasicBlock) (CV, bool) {
	// a loop-carried variable is the phi node of the block itself (go/ssa names phis after the variable);
	// no debug reference points at it when the variable is only read further inside the loop
	if b != nil {
		for _, in := range b.Instrs {
			p, ok := in.(*ssa.Phi)
			if !ok {
				break
			}
			if p.Comment == name {
				if _, ok := fr.env[p]; ok {
					return CV{fr.val(p), p.Type()}, true
				}
			}
		}
	}
	refs := fr.debug[name]
	if len(refs) == 0 {
		return CV{}, false
	}
	var best *ssa.DebugRef
	score := -1
	for _, d := range refs {
		if _, isVar := d.Object().(*types.Var); !isVar {
			continue
		}
		if !d.IsAddr && types.IsInterface(d.X.Type()) && !types.IsInterface(d.Object().Type()) {
			if _, isTP := types.Unalias(d.Object().Type()).(*types.TypeParam); !isTP {
				// the reference was recorded on an implicitly converted value (boxed into an interface)
				continue
			}
		}
		s := 0
		switch v := d.X.(type) {
		case *ssa.Phi:
			if b != nil && v.Block() == b {
				s = 100
			} else if b != nil && v.Block().Dominates(b) {
				s = 50 + v.Block().Index%40
			} else {
				continue
			}
		case *ssa.Parameter, *ssa.Const, *ssa.FreeVar:
			s = 10
		case ssa.Instruction:
			vb := v.Block()
			if b == nil || vb == b || vb.Dominates(b) {
				s = 40
				if d.IsAddr {
					s = 90
				}
				// prefer definitions closer to b
				if b != nil {
					s += vb.Index % 9
				}
			} else {
				continue
			}
		default:
			continue
		}
		if _, ok := fr.env[d.X]; !ok {
			if _, isConst := d.X.(*ssa.Const); !isConst {
				if _, isParam := d.X.(*ssa.Parameter); !isParam {
					continue
				}
			}
		}
		if s > score {
			score = s
			best = d
		}
	}
	if best == nil {
		return CV{}, false
	}
	v := fr.val(best.X)
	if best.IsAddr {
		pt := types.Unalias(best.X.Type()).Underlying().(*types.Pointer).Elem()
		return CV{fr.ex.load(st, v, pt), pt}, true
	}
	return CV{v, best.X.Type()}, true
}

func (ctx *EvalCtx) binary(x *ast.BinaryExpr) CV {
	f := ctx.ex.f
	a := ctx.eval(x.X)
	// short-circuit forms are plain logic here
	b := ctx.eval(x.Y)
	switch x.Op {
	case token.LAND:
		return CV{f.And(a.t, b.t), nil}
	case token.LOR:
		return CV{f.Or(a.t, b.t), nil}
	case token.EQL, token.NEQ:
		at, bt := a.t, b.t
		if at.sort != bt.sort {
			// nil against slices
			if at.sort == Sort("Slice") && b.typ == types.Typ[types.UntypedNil] {
				at = f.Acc("Slice", "ref", at)
			} else if bt.sort == Sort("Slice") && a.typ == types.Typ[types.UntypedNil] {
				bt = f.Acc("Slice", "ref", bt)
			} else if at.sort == SReal && bt.sort == SInt {
				bt = f.ToReal(bt)
			} else if bt.sort == SReal && at.sort == SInt {
				at = f.ToReal(at)
			} else {
				ctx.fail("comparison of different sorts %s and %s", at.sort, bt.sort)
			}
		}
		r := f.Eq(at, bt)
		if x.Op == token.NEQ {
			r = f.Not(r)
		}
		return CV{r, nil}
	}
	at, bt := a.t, b.t
	if at.sort == SReal || bt.sort == SReal {
		at, bt = f.ToReal(at), f.ToReal(bt)
	}
	switch x.Op {
	case token.LSS:
		return CV{f.Lt(at, bt), nil}
	case token.LEQ:
		return CV{f.Le(at, bt), nil}
	case token.GTR:
		return CV{f.Gt(at, bt), nil}
	case token.GEQ:
		return CV{f.Ge(at, bt), nil}
	case token.ADD:
		if at.sort == SStr {
			return CV{ctx.ex.strConcat(at, bt), a.typ}
		}
		return CV{f.Add(at, bt), nil}
	case token.SUB:
		return CV{f.Sub(at, bt), nil}
	case token.MUL:
		return CV{f.Mul(at, bt), nil}
	case token.QUO:
		if at.sort == SReal {
			return CV{f.RDiv(at, bt), nil}
		}
		// contract division is floor division on mathematical integers (equals Go's for non-negative operands)
		return CV{f.Div(at, bt), nil}
	case token.REM:
		return CV{f.Mod(at, bt), nil}
	}
	ctx.fail("unsupported binary operator %s", x.Op)
	return CV{}
}

func (ctx *EvalCtx) selector(x *ast.SelectorExpr) CV {
	ex := ctx.ex
	// ghost.<var>: mutable ghost state
	if id, ok := x.X.(*ast.Ident); ok && id.Name == "ghost" {
		if s, ok := ex.W.ghostVars[x.Sel.Name]; ok {
			return CV{ex.comp(ctx.state(), "G."+x.Sel.Name, s), nil}
		}
		ctx.fail("undeclared ghost variable %s", x.Sel.Name)
	}
	// qualified identifier: pkg.Name
	if id, ok := x.X.(*ast.Ident); ok {
		if _, isVar := ctx.vars[id.Name]; !isVar {
			if pkg := ctx.ex.W.resolvePkg(ctx.fn, ctx.calleeFn, id.Name); pkg != nil {
				if ctx.frame != nil {
					if _, ok := ctx.frame.localByName(ctx.st, id.Name, ctx.block); ok {
						goto notpkg
					}
				}
				if cv, ok := ctx.pkgMember(pkg, x.Sel.Name); ok {
					return cv
				}
				ctx.fail("unknown member %s.%s", id.Name, x.Sel.Name)
			}
		}
	}
notpkg:
	v := ctx.eval(x.X)
	return ctx.fieldOf(v, x.Sel.Name)
	_ = ex
	return CV{}
}

func (ctx *EvalCtx) fieldOf(v CV, name string) CV {
	ex := ctx.ex
	f := ex.f
	if v.typ == nil {
		ctx.fail("field %s of untyped value", name)
	}
	t := types.Unalias(v.typ)
	if pt, ok := t.Underlying().(*types.Pointer); ok {
		dt, s, ok := ex.tm.StructOf(pt.Elem())
		if !ok {
			ctx.fail("field %s of pointer to non-struct / opaque %s", name, pt.Elem())
		}
		for i := 0; i < s.NumFields(); i++ {
			if s.Field(i).Name() == name {
				p := ex.faddr(v.t, dt, fieldName(s, i))
				return CV{ex.load(ctx.state(), p, s.Field(i).Type()), s.Field(i).Type()}
			}
		}
		// embedded structs
		for i := 0; i < s.NumFields(); i++ {
			if s.Field(i).Embedded() {
				p := ex.faddr(v.t, dt, fieldName(s, i))
				inner := CV{ex.load(ctx.state(), p, s.Field(i).Type()), s.Field(i).Type()}
				if r, ok := ctx.tryField(inner, name); ok {
					return r
				}
			}
		}
		ctx.fail("no field %s in %s", name, dt)
	}
	if r, ok := ctx.tryField(v, name); ok {
		return r
	}
	ctx.fail("no field %s in %s", name, v.typ)
	_ = f
	return CV{}
}

func (ctx *EvalCtx) tryField(v CV, name string) (CV, bool) {
	ex := ctx.ex
	f := ex.f
	t := types.Unalias(v.typ)
	if _, ok := t.Underlying().(*types.Pointer); ok {
		defer func() { recover() }()
		return ctx.fieldOf(v, name), true
	}
	dt, s, ok := ex.tm.StructOf(t)
	if !ok {
		return CV{}, false
	}
	for i := 0; i < s.NumFields(); i++ {
		if s.Field(i).Name() == name {
			return CV{f.Acc(dt, fieldName(s, i), v.t), s.Field(i).Type()}, true
		}
	}
	for i := 0; i < s.NumFields(); i++ {
		if s.Field(i).Embedded() {
			inner := CV{f.Acc(dt, fieldName(s, i), v.t), s.Field(i).Type()}
			if r, ok := ctx.tryField(inner, name); ok {
				return r, true
			}
		}
	}
	return CV{}, false
}

func (ctx *EvalCtx) index(x *ast.IndexExpr) CV {
	ex := ctx.ex
	f := ex.f
	base := ctx.eval(x.X)
	idx := ctx.eval(x.Index)
	if base.typ == nil {
		if base.t.sort.IsArray() {
			return CV{f.Select(base.t, idx.t), nil}
		}
		ctx.fail("index of untyped value")
	}
	switch u := types.Unalias(base.typ).Underlying().(type) {
	case *types.Slice:
		es := ex.tm.SortOf(u.Elem())
		p := ex.iaddr(es, f.Acc("Slice", "ref", base.t), f.Add(f.Acc("Slice", "off", base.t), idx.t))
		return CV{ex.load(ctx.state(), p, u.Elem()), u.Elem()}
	case *types.Array:
		return CV{f.Select(base.t, idx.t), u.Elem()}
	case *types.Map:
		has := ex.mapHas(ctx.state(), base.t, idx.t, u)
		return CV{f.Ite(f.And(f.Neq(base.t, f.Int(0)), has), ex.mapVal(ctx.state(), base.t, idx.t, u), ex.tm.Zero(u.Elem())), u.Elem()}
	case *types.Pointer:
		if a, ok := types.Unalias(u.Elem()).Underlying().(*types.Array); ok {
			p := ex.iaddr(ex.tm.SortOf(a.Elem()), base.t, idx.t)
			return CV{ex.load(ctx.state(), p, a.Elem()), a.Elem()}
		}
	case *types.Basic:
		return CV{f.App("str.at_", SInt, base.t, idx.t), types.Typ[types.Uint8]}
	}
	ctx.fail("unsupported index base %s", base.typ)
	return CV{}
}

func (ctx *EvalCtx) callExpr(x *ast.CallExpr) CV {
	ex := ctx.ex
	f := ex.f
	// special forms
	if id, ok := x.Fun.(*ast.Ident); ok {
		if cv, ok := ctx.specialForm(id.Name, x); ok {
			return cv
		}
		switch id.Name {
		case "old":
			saved := ctx.inOld
			ctx.inOld = true
			v := ctx.eval(x.Args[0])
			ctx.inOld = saved
			return v
		case "prev":
			if ctx.prevPhis == nil || ctx.frame == nil {
				ctx.fail("prev() is only available in 'loop <n> step' clauses")
			}
			cur := map[*ssa.Phi]*Term{}
			for p, v := range ctx.prevPhis {
				cur[p] = ctx.frame.env[p]
				ctx.frame.env[p] = v
			}
			savedSt := ctx.st
			if ctx.prevState != nil {
				ctx.st = ctx.prevState
			}
			v := ctx.eval(x.Args[0])
			ctx.st = savedSt
			for p, c := range cur {
				ctx.frame.env[p] = c
			}
			return v
		case "imp":
			a, b := ctx.eval(x.Args[0]), ctx.eval(x.Args[1])
			return CV{f.Implies(a.t, b.t), nil}
		case "iff":
			a, b := ctx.eval(x.Args[0]), ctx.eval(x.Args[1])
			return CV{f.Eq(a.t, b.t), nil}
		case "ite":
			c, a, b := ctx.eval(x.Args[0]), ctx.eval(x.Args[1]), ctx.eval(x.Args[2])
			return CV{f.Ite(c.t, a.t, b.t), a.typ}
		case "len":
			v := ctx.eval(x.Args[0])
			if v.typ == nil {
				ctx.fail("len of untyped value")
			}
			return CV{ex.lenOf(ctx.state(), v.t, v.typ), nil}
		case "forall", "exists":
			// forall(i, lo, hi, body)  or forall(i, body) (unbounded Int)
			name := x.Args[0].(*ast.Ident).Name
			bv := f.Bound(name, SInt)
			saved, had := ctx.vars[name]
			ctx.vars[name] = CV{bv, nil}
			var body, rng *Term
			if len(x.Args) == 4 {
				lo, hi := ctx.eval(x.Args[1]), ctx.eval(x.Args[2])
				rng = f.And(f.Le(lo.t, bv), f.Lt(bv, hi.t))
				body = ctx.eval(x.Args[3]).t
			} else {
				body = ctx.eval(x.Args[1]).t
				rng = f.True()
			}
			if had {
				ctx.vars[name] = saved
			} else {
				delete(ctx.vars, name)
			}
			if id.Name == "forall" {
				return CV{f.Forall([]*Term{bv}, f.Implies(rng, body)), nil}
			}
			return CV{f.Exists([]*Term{bv}, f.And(rng, body)), nil}
		case "foralls", "existss":
			// quantification over strings: foralls(k, body)
			name := x.Args[0].(*ast.Ident).Name
			bv := f.Bound(name, SStr)
			saved, had := ctx.vars[name]
			ctx.vars[name] = CV{bv, types.Typ[types.String]}
			body := ctx.eval(x.Args[1]).t
			if had {
				ctx.vars[name] = saved
			} else {
				delete(ctx.vars, name)
			}
			if id.Name == "foralls" {
				return CV{f.Forall([]*Term{bv}, body), nil}
			}
			return CV{f.Exists([]*Term{bv}, body), nil}
		case "forallt", "existst":
			// quantification over the values of a Go type: forallt(k, T, body), e.g. forallt(h, [32]byte, ...)
			name := x.Args[0].(*ast.Ident).Name
			scope := ctx.calleeFn
			if scope == nil {
				scope = ctx.fn
			}
			tname := types.ExprString(x.Args[1])
			T := ex.W.lookupType(scope, tname)
			if T == nil {
				ctx.fail("unknown identifier %s (type)", tname)
			}
			bv := f.Bound(name, ex.tm.SortOf(T))
			saved, had := ctx.vars[name]
			ctx.vars[name] = CV{bv, T}
			body := ctx.eval(x.Args[2]).t
			if had {
				ctx.vars[name] = saved
			} else {
				delete(ctx.vars, name)
			}
			if id.Name == "forallt" {
				return CV{f.Forall([]*Term{bv}, body), nil}
			}
			return CV{f.Exists([]*Term{bv}, body), nil}
		case "min", "max":
			a, b := ctx.eval(x.Args[0]), ctx.eval(x.Args[1])
			if id.Name == "min" {
				return CV{f.Ite(f.Le(a.t, b.t), a.t, b.t), nil}
			}
			return CV{f.Ite(f.Ge(a.t, b.t), a.t, b.t), nil}
		case "abs":
			a := ctx.eval(x.Args[0])
			return CV{f.Ite(f.Ge(a.t, f.Int(0)), a.t, f.Neg(a.t)), nil}
		case "wrap64":
			a := ctx.eval(x.Args[0])
			return CV{f.Mod(a.t, f.BigInt(new(big.Int).Lsh(big.NewInt(1), 64))), nil}
		case "int", "int64", "uint64", "uint", "int32", "uint32", "uint8", "uint16", "int8", "int16":
			// conversions are the identity on mathematical integers
			a := ctx.eval(x.Args[0])
			if a.t.sort == SReal {
				return CV{f.ToInt(a.t), nil}
			}
			return CV{a.t, nil}
		case "real", "float64":
			a := ctx.eval(x.Args[0])
			return CV{f.ToReal(a.t), nil}
		case "has": // has(m, k): key present in map
			m, k := ctx.eval(x.Args[0]), ctx.eval(x.Args[1])
			mt, ok := types.Unalias(m.typ).Underlying().(*types.Map)
			if !ok {
				ctx.fail("has() needs a map")
			}
			return CV{f.And(f.Neq(m.t, f.Int(0)), ex.mapHas(ctx.state(), m.t, k.t, mt)), nil}
		case "allocated":
			// allocated(p): p points to an object that exists now (non-nil and older than the allocation frontier),
			// so it differs from everything allocated from here on
			a := ctx.eval(x.Args[0])
			t := a.t
			if t.sort == Sort("Slice") {
				// a slice: its backing array, if it has one (nil slices have none)
				t = f.Acc("Slice", "ref", t)
				return CV{f.And(f.Ge(t, f.Int(0)), f.Lt(t, ctx.state().frontier)), nil}
			}
			return CV{f.And(f.Gt(t, f.Int(0)), f.Lt(t, ctx.state().frontier)), nil}
		case "samecontents":
			// samecontents(s), in a postcondition: the backing array of slice s holds what it held on entry (every
			// element, without a quantifier)
			a := ctx.eval(x.Args[0])
			sl, ok := types.Unalias(a.typ).Underlying().(*types.Slice)
			if !ok || ctx.old == nil {
				ctx.fail("samecontents() needs a slice, in a postcondition")
			}
			name := ex.eComp(sl.Elem())
			srt := ArraySort(SInt, ArraySort(SInt, ex.tm.SortOf(sl.Elem())))
			ref := f.Acc("Slice", "ref", a.t)
			return CV{f.Eq(f.Select(ex.comp(ctx.st, name, srt), ref), f.Select(ex.comp(ctx.old, name, srt), ref)), nil}
		case "samearray":
			// samearray(s, t): the two slices share their backing array (writes through one may show in the other)
			a, b := ctx.eval(x.Args[0]), ctx.eval(x.Args[1])
			if a.t.sort != Sort("Slice") || b.t.sort != Sort("Slice") {
				ctx.fail("samearray() needs two slices")
			}
			return CV{f.And(f.Neq(f.Acc("Slice", "ref", a.t), f.Int(0)), f.Eq(f.Acc("Slice", "ref", a.t), f.Acc("Slice", "ref", b.t))), nil}
		case "isnil":
			a := ctx.eval(x.Args[0])
			if a.t.sort == Sort("Slice") {
				return CV{f.Eq(f.Acc("Slice", "ref", a.t), f.Int(0)), nil}
			}
			return CV{f.Eq(a.t, f.Int(0)), nil}
		case "strlen":
			a := ctx.eval(x.Args[0])
			return CV{ex.tm.StrLen(a.t), nil}
		case "typeof":
			ctx.fail("typeof not supported")
		}
		switch id.Name {
		case "first", "second", "third":
			v := ctx.eval(x.Args[0])
			tup := ctx.tuples[v.t]
			i := map[string]int{"first": 0, "second": 1, "third": 2}[id.Name]
			if i >= len(tup) {
				ctx.fail("%s() of a call with %d results", id.Name, len(tup))
			}
			return tup[i]
		}
		if g := ex.W.ghostFns[id.Name]; g != nil {
			return ctx.ghostCall(g, x.Args)
		}
		if lf := specFunc(ex, id.Name); lf != nil {
			var args []CV
			for _, a := range x.Args {
				args = append(args, ctx.eval(a))
			}
			return lf(ctx, args)
		}
	}
	if sel, ok := x.Fun.(*ast.SelectorExpr); ok {
		if id, ok := sel.X.(*ast.Ident); ok && id.Name == "ghost" {
			g := ex.W.ghostFns[sel.Sel.Name]
			if g == nil {
				ctx.fail("undeclared ghost function %s", sel.Sel.Name)
			}
			return ctx.ghostCall(g, x.Args)
		}
		// protobuf-style getter: x.GetFoo() == x.Foo
		if strings.HasPrefix(sel.Sel.Name, "Get") && len(x.Args) == 0 {
			recv := ctx.eval(sel.X)
			if r, ok := ctx.tryField(recv, strings.TrimPrefix(sel.Sel.Name, "Get")); ok {
				return r
			}
		}
		if fn := ctx.resolveFuncExpr(x.Fun); fn != nil {
			return ctx.runSpecCall(fn, nil, x.Args)
		}
		// methods of modelled library types
		recv := ctx.eval(sel.X)
		if lf := specMethod(ex, recv, sel.Sel.Name); lf != nil {
			args := []CV{recv}
			for _, a := range x.Args {
				args = append(args, ctx.eval(a))
			}
			return lf(ctx, args)
		}
		if recv.typ != nil {
			if _, isIface := types.Unalias(recv.typ).Underlying().(*types.Interface); isIface {
				key := ifaceKey(recv.typ, sel.Sel.Name)
				if ct := ex.W.contracts[key]; ct != nil && ct.Function {
					return ctx.ifaceFunctionCall(ct, recv, sel.Sel.Name, x.Args)
				}
				ctx.fail("interface method %s has no 'function' contract", key)
			}
			if fn := ctx.methodOf(recv.typ, sel.Sel.Name); fn != nil {
				return ctx.runSpecCall(fn, &recv, x.Args)
			}
			if cv, ok := ctx.extMethod(recv, sel.Sel.Name, x.Args); ok {
				return cv
			}
		}
		ctx.fail("unsupported method call %s in contract", sel.Sel.Name)
	}
	if fn := ctx.resolveFuncExpr(x.Fun); fn != nil {
		return ctx.runSpecCall(fn, nil, x.Args)
	}
	ctx.fail("unsupported call in contract")
	return CV{}
}

func (ctx *EvalCtx) ghostCall(g *Contract, argExprs []ast.Expr) CV {
	f := ctx.ex.f
	if len(argExprs) != len(g.ArgSorts) {
		ctx.fail("ghost function %s expects %d arguments", g.Name, len(g.ArgSorts))
	}
	args := make([]*Term, len(argExprs))
	for i, a := range argExprs {
		args[i] = ctx.eval(a).t
		if args[i].sort != g.ArgSorts[i] {
			ctx.fail("ghost function %s argument %d has sort %s, want %s", g.Name, i, args[i].sort, g.ArgSorts[i])
		}
	}
	if len(args) == 0 {
		return CV{f.Var("ghost."+g.Name, g.RetSort), nil}
	}
	return CV{f.App("ghost."+g.Name, g.RetSort, args...), nil}
}

func (ctx *EvalCtx) runSpecCall(fn *ssa.Function, recv *CV, argExprs []ast.Expr) CV {
	var args []CV
	if recv != nil {
		r := *recv
		// adapt pointer/value receivers
		if len(fn.Params) > 0 {
			pt := fn.Params[0].Type()
			_, wantPtr := types.Unalias(pt).Underlying().(*types.Pointer)
			_, havePtr := types.Unalias(r.typ).Underlying().(*types.Pointer)
			if havePtr && !wantPtr {
				el := types.Unalias(r.typ).Underlying().(*types.Pointer).Elem()
				r = CV{ctx.ex.load(ctx.state(), r.t, el), el}
			} else if !havePtr && wantPtr {
				ctx.fail("method %s needs an addressable receiver", fn.Name())
			}
		}
		args = append(args, r)
	}
	for _, a := range argExprs {
		args = append(args, ctx.eval(a))
	}
	// a concrete value handed to an interface-typed parameter is boxed, exactly as the compiled call does
	for i := range args {
		if i >= len(fn.Params) || args[i].typ == nil {
			continue
		}
		if _, want := types.Unalias(fn.Params[i].Type()).Underlying().(*types.Interface); !want {
			continue
		}
		if _, have := types.Unalias(args[i].typ).Underlying().(*types.Interface); have {
			continue
		}
		if b, ok := args[i].typ.(*types.Basic); ok && b.Kind() == types.UntypedNil {
			continue
		}
		args[i] = CV{ctx.ex.box(ctx.state(), args[i].t, args[i].typ), fn.Params[i].Type()}
	}
	var res []CV
	if ct := ctx.ex.W.contracts[fnKey(fn)]; ct != nil && ct.Function {
		// a 'function' contract: the same uninterpreted function symbols the call rule uses
		fargs := make([]*Term, len(args))
		for i, a := range args {
			fargs[i] = a.t
		}
		if ct.ReadsWorld {
			fargs = append(fargs, ctx.state().world)
		}
		if len(ct.Reads) > 0 {
			fargs = append(fargs, ctx.ex.heapToken(ctx.state(), ct.Reads))
		}
		rs := fn.Signature.Results()
		for i := 0; i < rs.Len(); i++ {
			res = append(res, CV{ctx.ex.f.App(fmt.Sprintf("fn.%s.r%d", sanitize(ct.Key()), i), ctx.ex.tm.SortOf(rs.At(i).Type()), fargs...), rs.At(i).Type()})
		}
	} else if name := fn.String(); len(fn.Blocks) == 0 && isPureExternal(name) && ctx.ex.allValueLike(fn) && len(args) == len(sigParamTypes(fn.Signature)) {
		// an effect-free dependency function of plain values: the same uninterpreted symbol the call rule uses
		fargs := make([]*Term, len(args))
		for i, a := range args {
			fargs[i] = a.t
		}
		rs := fn.Signature.Results()
		for i := 0; i < rs.Len(); i++ {
			res = append(res, CV{ctx.ex.f.App(fmt.Sprintf("ext.%s.r%d", sanitize(name), i), ctx.ex.tm.SortOf(rs.At(i).Type()), fargs...), rs.At(i).Type()})
		}
	} else {
		res = ctx.specCall(fn, args)
	}
	if len(res) == 0 {
		ctx.fail("function %s has no result", fn.Name())
	}
	if ctx.tuples == nil {
		ctx.tuples = map[*Term][]CV{}
	}
	ctx.tuples[res[0].t] = res
	return res[0]
}

func (ctx *EvalCtx) methodOf(t types.Type, name string) *ssa.Function {
	prog := ctx.ex.W.prog
	for _, tt := range []types.Type{t, types.NewPointer(t)} {
		ms := prog.MethodSets.MethodSet(tt)
		for i := 0; i < ms.Len(); i++ {
			if ms.At(i).Obj().Name() == name {
				if obj, ok := ms.At(i).Obj().(*types.Func); ok {
					if d := prog.FuncValue(obj); d != nil && len(d.Blocks) > 0 {
						return d
					}
				}
			}
		}
	}
	return nil
}

func (ctx *EvalCtx) ifaceFunctionCall(ct *Contract, recv CV, method string, argExprs []ast.Expr) CV {
	ex := ctx.ex
	f := ex.f
	it := types.Unalias(recv.typ).Underlying().(*types.Interface)
	var sig *types.Signature
	for i := 0; i < it.NumMethods(); i++ {
		if it.Method(i).Name() == method {
			sig = it.Method(i).Type().(*types.Signature)
		}
	}
	if sig == nil {
		ctx.fail("no method %s", method)
	}
	fargs := []*Term{recv.t}
	for _, a := range argExprs {
		fargs = append(fargs, ctx.eval(a).t)
	}
	if ct.ReadsWorld {
		fargs = append(fargs, ctx.state().world)
	}
	if len(ct.Reads) > 0 {
		fargs = append(fargs, ex.heapToken(ctx.state(), ct.Reads))
	}
	var res []CV
	for i := 0; i < sig.Results().Len(); i++ {
		rt := sig.Results().At(i).Type()
		res = append(res, CV{f.App(fmt.Sprintf("fn.%s.r%d", sanitize(ct.Key()), i), ex.tm.SortOf(rt), fargs...), rt})
	}
	if ctx.tuples == nil {
		ctx.tuples = map[*Term][]CV{}
	}
	ctx.tuples[res[0].t] = res
	return res[0]
}
