package main

// Contract files: //@ lines in comment-only, build-tag-guarded Go files next to the code.

import (
	"fmt"
	"go/ast"
	"regexp"
	"strconv"
	"strings"
)

type Clause struct {
	Kind  string // requires | ensures | invariant | assert | assume-domain | decreases
	Label string
	Tags  []string
	Text  string
	File  string
	Line  int
	Loop  int    // for invariants
	At    string // for assert: "call:<callee>[#k]"
}

func (c *Clause) HasTag(p string) bool {
	if len(c.Tags) == 0 {
		return true
	}
	for _, t := range c.Tags {
		if t == p {
			return true
		}
	}
	return false
}

type Contract struct {
	Pkg      string // package path
	Kind     string // func | iface | lemma | ghostfn
	Recv     string // receiver type name without pointer star ("" for plain funcs)
	Name     string
	Requires []*Clause
	Ensures  []*Clause
	Invs     []*Clause
	Asserts  []*Clause
	Domains  []*Clause
	Assigns  []string
	HasAssigns bool
	Pure     bool // no effect on modelled state; results constrained only by ensures
	Function bool // results are a function of arguments (and of the world version when ReadsWorld)
	ReadsWorld bool
	Reads    []string // heap components a 'function' also depends on ("reads H.x.F, E.uint8, H.dt.*")
	Trusted  bool // body not verified (interface methods, dependencies)
	Inline   bool // callers inline the body instead of using the contract
	NoVerify bool
	Safety   bool // generate safety obligations (panic, nil, index, div) for this function
	DynPure  bool
	Shared   []string
	FrameAssumed bool
	Rely     []*Clause
	Atomic   bool
	Props    []string
	File     string
	Line     int
	// lemma
	LemmaText string
	// ghostfn
	ArgSorts []Sort
	RetSort  Sort
	Notes    []string
}

func (c *Contract) Key() string {
	if c.Recv != "" {
		return c.Pkg + ".(" + c.Recv + ")." + c.Name
	}
	return c.Pkg + "." + c.Name
}

func (c *Contract) ForProp(p string) bool {
	if len(c.Props) == 0 {
		return true
	}
	for _, t := range c.Props {
		if t == p {
			return true
		}
	}
	return false
}

var (
	reFunc  = regexp.MustCompile(`^(func|iface)\s+(?:\(\s*\*?\s*([A-Za-z_][A-Za-z0-9_\[\], .*]*)\s*\)\s*)?([A-Za-z_][A-Za-z0-9_$]*)\s*(.*)$`)
	reTags  = regexp.MustCompile(`^\[([A-Za-z0-9_, ]+)\]\s*`)
	reLabel = regexp.MustCompile(`^([A-Za-z_][A-Za-z0-9_\-]*)\s*:\s*([^=].*)$`)
)

// ParseContracts extracts contracts from the comments of one file.
func ParseContracts(pkgPath, filename string, file *ast.File, fsetLine func(ast.Node) int) ([]*Contract, error) {
	var out []*Contract
	var cur *Contract
	var lastClause *Clause
	for _, cg := range file.Comments {
		for _, c := range cg.List {
			txt := c.Text
			if !strings.HasPrefix(txt, "//@") {
				continue
			}
			line := fsetLine(c)
			body := strings.TrimSpace(txt[3:])
			if body == "" {
				continue
			}
			if strings.HasPrefix(body, "#") {
				continue // comment inside contracts
			}
			kw, rest := splitKW(body)
			switch kw {
			case "func", "iface":
				m := reFunc.FindStringSubmatch(body)
				if m == nil {
					return nil, fmt.Errorf("%s:%d: bad contract header %q", filename, line, body)
				}
				cur = &Contract{Pkg: pkgPath, Kind: m[1], Recv: strings.TrimSpace(m[2]), Name: m[3], File: filename, Line: line}
				if tm := reTags.FindStringSubmatch(strings.TrimSpace(m[4])); tm != nil {
					cur.Props = splitTags(tm[1])
				}
				out = append(out, cur)
				lastClause = nil
			case "lemma":
				name, text, _ := strings.Cut(rest, ":")
				cur = &Contract{Pkg: pkgPath, Kind: "lemma", Name: strings.TrimSpace(name), LemmaText: strings.TrimSpace(text), File: filename, Line: line}
				if i := strings.Index(cur.Name, "["); i >= 0 {
					cur.Props = splitTags(strings.Trim(cur.Name[i:], "[]"))
					cur.Name = strings.TrimSpace(cur.Name[:i])
				}
				out = append(out, cur)
				lastClause = &Clause{Kind: "lemma"}
			case "ghostvar":
				// ghostvar name <SMT sort>: mutable ghost state (a heap component "G.name"), changed only by
				// contracts that list it under assigns
				name, srt, _ := strings.Cut(rest, " ")
				out = append(out, &Contract{Kind: "ghostvar", Pkg: pkgPath, Name: strings.TrimSpace(name), RetSort: Sort(strings.TrimSpace(srt)), File: filename, Line: line})
				cur = nil
				lastClause = nil
			case "ghostfn":
				g, err := parseGhostFn(rest)
				if err != nil {
					return nil, fmt.Errorf("%s:%d: %v", filename, line, err)
				}
				g.Pkg = pkgPath
				g.File, g.Line = filename, line
				out = append(out, g)
				cur = nil
				lastClause = nil
			case "requires", "ensures", "assume-domain", "invariant", "assert":
				if cur == nil {
					return nil, fmt.Errorf("%s:%d: clause outside contract", filename, line)
				}
				if cur.Kind == "lemma" {
					cur.LemmaText += " ;; " + body
					continue
				}
				cl := &Clause{Kind: kw, File: filename, Line: line}
				rest = strings.TrimSpace(rest)
				if tm := reTags.FindStringSubmatch(rest); tm != nil {
					cl.Tags = splitTags(tm[1])
					rest = rest[len(tm[0]):]
				}
				if lm := reLabel.FindStringSubmatch(rest); lm != nil && !isKeywordish(lm[1]) {
					cl.Label = lm[1]
					rest = lm[2]
				}
				cl.Text = rest
				switch kw {
				case "requires":
					cur.Requires = append(cur.Requires, cl)
				case "ensures":
					cur.Ensures = append(cur.Ensures, cl)
				case "assume-domain":
					cur.Domains = append(cur.Domains, cl)
				}
				lastClause = cl
			case "loop":
				// loop <n> invariant [tags] [label:] expr
				if cur == nil {
					return nil, fmt.Errorf("%s:%d: clause outside contract", filename, line)
				}
				parts := strings.Fields(rest)
				if len(parts) < 3 || (parts[1] != "invariant" && parts[1] != "step" && parts[1] != "opaque" && parts[1] != "writes" && parts[1] != "complete") {
					return nil, fmt.Errorf("%s:%d: expected 'loop <n> invariant|step <expr>'", filename, line)
				}
				n, err := strconv.Atoi(parts[0])
				if err != nil {
					return nil, fmt.Errorf("%s:%d: bad loop ordinal", filename, line)
				}
				r := strings.TrimSpace(strings.TrimPrefix(strings.TrimSpace(strings.TrimPrefix(strings.TrimSpace(rest), parts[0])), parts[1]))
				// "step": a relation between the loop-carried state at the header (prev(x)) and at the end of
				// one iteration (x); proved on every back edge, never assumed.
				cl := &Clause{Kind: parts[1], Loop: n, File: filename, Line: line}
				if tm := reTags.FindStringSubmatch(r); tm != nil {
					cl.Tags = splitTags(tm[1])
					r = r[len(tm[0]):]
				}
				if lm := reLabel.FindStringSubmatch(r); lm != nil && !isKeywordish(lm[1]) {
					cl.Label = lm[1]
					r = lm[2]
				}
				cl.Text = r
				cur.Invs = append(cur.Invs, cl)
				lastClause = cl
			case "at":
				// at call:<callee>[#k] assert [tags] [label:] expr
				if cur == nil {
					return nil, fmt.Errorf("%s:%d: clause outside contract", filename, line)
				}
				parts := strings.Fields(rest)
				if len(parts) < 3 || (parts[1] != "assert" && parts[1] != "assume") {
					return nil, fmt.Errorf("%s:%d: expected 'at <site> assert|assume <expr>'", filename, line)
				}
				r := strings.TrimSpace(strings.TrimPrefix(strings.TrimSpace(strings.TrimPrefix(strings.TrimSpace(rest), parts[0])), parts[1]))
				// "assume" at a site: a stated, unchecked assumption about values produced by unmodelled code
				// (echoed in the evidence); "assert": an obligation
				cl := &Clause{Kind: parts[1], At: parts[0], File: filename, Line: line}
				if tm := reTags.FindStringSubmatch(r); tm != nil {
					cl.Tags = splitTags(tm[1])
					r = r[len(tm[0]):]
				}
				if lm := reLabel.FindStringSubmatch(r); lm != nil && !isKeywordish(lm[1]) {
					cl.Label = lm[1]
					r = lm[2]
				}
				cl.Text = r
				cur.Asserts = append(cur.Asserts, cl)
				lastClause = cl
			case "assigns":
				if cur == nil {
					return nil, fmt.Errorf("%s:%d: clause outside contract", filename, line)
				}
				cur.HasAssigns = true
				for _, a := range strings.Split(rest, ",") {
					a = strings.TrimSpace(a)
					if a != "" && a != "none" && a != "nothing" {
						cur.Assigns = append(cur.Assigns, a)
					}
				}
				lastClause = nil
			case "pure":
				cur.Pure = true
			case "function":
				cur.Function = true
				cur.Pure = true
			case "reads-world":
				cur.ReadsWorld = true
			case "reads":
				for _, a := range strings.Split(rest, ",") {
					if a = strings.TrimSpace(a); a != "" {
						cur.Reads = append(cur.Reads, a)
					}
				}
			case "trusted":
				cur.Trusted = true
			case "inline":
				cur.Inline = true
			case "safety":
				cur.Safety = true
			case "frame-assumed":
				// the 'assigns' list is used at call sites but not verified for this function's body (stated assumption)
				cur.FrameAssumed = true
			case "shared":
				// heap components other goroutines may write between any two atomic steps of this function
				for _, a := range strings.Split(rest, ",") {
					if a = strings.TrimSpace(a); a != "" {
						cur.Shared = append(cur.Shared, a)
					}
				}
			case "rely":
				// what the environment preserves about the shared components (assumed after each interference)
				cur.Rely = append(cur.Rely, &Clause{Kind: "rely", Text: rest, File: filename, Line: line})
			case "dynamic-calls-pure":
				// calls through function values inside this function have no effect on modelled state (trusted)
				cur.DynPure = true
			case "note":
				cur.Notes = append(cur.Notes, rest)
			default:
				// continuation of the previous clause
				if lastClause == nil {
					return nil, fmt.Errorf("%s:%d: unknown contract keyword %q", filename, line, kw)
				}
				if lastClause.Kind == "lemma" {
					cur.LemmaText += " " + body
				} else {
					lastClause.Text += " " + body
				}
			}
		}
	}
	return out, nil
}

func isKeywordish(s string) bool {
	switch s {
	case "forall", "exists", "old", "len":
		return true
	}
	return false
}

func splitKW(s string) (string, string) {
	i := strings.IndexAny(s, " \t")
	if i < 0 {
		return s, ""
	}
	return s[:i], strings.TrimSpace(s[i+1:])
}

func splitTags(s string) []string {
	var out []string
	for _, t := range strings.Split(s, ",") {
		t = strings.TrimSpace(t)
		if t != "" {
			out = append(out, t)
		}
	}
	return out
}

func parseGhostFn(s string) (*Contract, error) {
	// name(Sort, Sort) Sort
	i := strings.Index(s, "(")
	j := strings.LastIndex(s, ")")
	if i < 0 || j < i {
		return nil, fmt.Errorf("bad ghostfn %q", s)
	}
	g := &Contract{Kind: "ghostfn", Name: strings.TrimSpace(s[:i])}
	for _, a := range strings.Split(s[i+1:j], ",") {
		a = strings.TrimSpace(a)
		if a != "" {
			g.ArgSorts = append(g.ArgSorts, Sort(a))
		}
	}
	g.RetSort = Sort(strings.TrimSpace(s[j+1:]))
	if g.RetSort == "" {
		g.RetSort = SInt
	}
	return g, nil
}

// splitTop splits s at the first occurrence of sep at parenthesis depth 0 (outside strings).
func splitTop(s, sep string) (string, string, bool) {
	depth := 0
	inStr := byte(0)
	for i := 0; i < len(s); i++ {
		ch := s[i]
		if inStr != 0 {
			if ch == '\\' {
				i++
			} else if ch == inStr {
				inStr = 0
			}
			continue
		}
		switch ch {
		case '"', '\'', '`':
			inStr = ch
		case '(', '[', '{':
			depth++
		case ')', ']', '}':
			depth--
		default:
			if depth == 0 && strings.HasPrefix(s[i:], sep) {
				// do not confuse "==>" inside "<==>"
				if sep == "==>" && i > 0 && s[i-1] == '<' {
					continue
				}
				return s[:i], s[i+len(sep):], true
			}
		}
	}
	return s, "", false
}
