package main

import (
	"encoding/json"
	"flag"
	"fmt"
	"os"
	"path/filepath"
	"sort"
	"strings"
	"time"

	"golang.org/x/tools/go/ssa"
)

type PropConfig struct {
	ID          string   `json:"id"`
	Packages    []string `json:"packages"`
	Note        string   `json:"level_note"`
	Assumptions []string `json:"assumptions"`
	NotReached  string   `json:"not_reached"`
}

type KnownFinding struct {
	Property   string `json:"property"`
	Obligation string `json:"obligation"`
	Class      string `json:"class"` // contract expression over the function's entry state describing the failing inputs
	What       string `json:"what"`
	Status     string `json:"status"` // "open" | "fixed"
	Commit     string `json:"commit,omitempty"`
}

type oblResult struct {
	ob   *Obligation
	ex   *Exec
	res  *SolveResult
	outside *SolveResult // result under "not in known class"
	known *KnownFinding
	q, qOutside, qSliced *Rendered
}

var verifDir = "/verif"

func main() {
	if len(os.Args) < 2 {
		fmt.Fprintln(os.Stderr, "usage: govc check <prop> [--tier quick|thorough] [--update-baseline] | govc dump <pkg> <func>")
		os.Exit(2)
	}
	switch os.Args[1] {
	case "check":
		os.Exit(cmdCheck(os.Args[2:]))
	case "dump":
		cmdDump(os.Args[2:])
	default:
		fmt.Fprintln(os.Stderr, "unknown command")
		os.Exit(2)
	}
}

func cmdDump(args []string) {
	W, err := LoadWorld("/repo", []string{args[0]})
	if err != nil {
		fmt.Fprintln(os.Stderr, err)
		os.Exit(2)
	}
	for _, sp := range W.spkgs {
		for _, m := range sp.Members {
			if fn, ok := m.(*ssa.Function); ok && fn.Name() == args[1] {
				fn.WriteTo(os.Stdout)
				for _, a := range fn.AnonFuncs {
					a.WriteTo(os.Stdout)
				}
			}
			if t, ok := m.(*ssa.Type); ok {
				for _, ct := range []*Contract{{Pkg: sp.Pkg.Path(), Recv: t.Name(), Name: args[1]}} {
					if fn := W.FindFunc(ct); fn != nil {
						fn.WriteTo(os.Stdout)
						for _, a := range fn.AnonFuncs {
							a.WriteTo(os.Stdout)
						}
					}
				}
			}
		}
	}
}

func cmdCheck(args []string) int {
	fs := flag.NewFlagSet("check", flag.ExitOnError)
	tier := fs.String("tier", "quick", "quick|thorough")
	update := fs.Bool("update-baseline", false, "rewrite the baseline obligation list from this run")
	repo := fs.String("repo", "/repo", "repository root")
	verbose := fs.Bool("v", false, "verbose")
	keep := fs.Bool("keep", false, "keep SMT files")
	var prop string
	if len(args) > 0 && !strings.HasPrefix(args[0], "-") {
		prop = args[0]
		args = args[1:]
	}
	fs.Parse(args)
	if prop == "" && fs.NArg() > 0 {
		prop = fs.Arg(0)
	}
	if v := os.Getenv("VERIF_TIER"); v != "" && *tier == "quick" {
		*tier = v
	}
	if v := os.Getenv("VERIF_DIR"); v != "" {
		verifDir = v
	}
	seed := 0
	fmt.Sscan(os.Getenv("VERIF_SEED"), &seed)
	t0 := time.Now()

	cfgs := map[string]*PropConfig{}
	data, err := os.ReadFile(filepath.Join(verifDir, "props.json"))
	if err != nil {
		fmt.Fprintln(os.Stderr, "props.json:", err)
		return 2
	}
	var list []*PropConfig
	if err := json.Unmarshal(data, &list); err != nil {
		fmt.Fprintln(os.Stderr, "props.json:", err)
		return 2
	}
	for _, c := range list {
		cfgs[c.ID] = c
	}
	cfg := cfgs[prop]
	if cfg == nil {
		fmt.Fprintln(os.Stderr, "unknown property", prop)
		return 2
	}
	var known []*KnownFinding
	if data, err := os.ReadFile(filepath.Join(verifDir, "known_findings.json")); err == nil {
		if err := json.Unmarshal(data, &known); err != nil {
			fmt.Fprintln(os.Stderr, "known_findings.json:", err)
			return 2
		}
	}

	W, err := LoadWorld(*repo, cfg.Packages)
	if err != nil {
		fmt.Fprintln(os.Stderr, "load:", err)
		return 2
	}
	W.loadSeconds = time.Since(t0).Seconds()

	// select contracts
	var targets []*Contract
	var keys []string
	for k := range W.contracts {
		keys = append(keys, k)
	}
	sort.Strings(keys)
	for _, k := range keys {
		ct := W.contracts[k]
		if ct.Kind != "func" || ct.Trusted {
			continue
		}
		if contractServes(ct, prop) {
			targets = append(targets, ct)
		}
	}
	var lemmas []*Contract
	for _, l := range W.lemmas {
		if l.ForProp(prop) && len(l.Props) > 0 {
			lemmas = append(lemmas, l)
		}
	}

	outDir := filepath.Join(verifDir, "out", "vc", prop)
	os.RemoveAll(outDir)
	os.MkdirAll(outDir, 0o755)

	var results []*oblResult
	var reports []*FnReport
	var stale []string
	notes := map[string]int{}
	trusted := map[string]bool{}
	inlined := map[string]bool{}
	havocked := map[string]int{}
	usedContracts := map[string]bool{}
	genT0 := time.Now()
	type target struct {
		ct *Contract
		fn *ssa.Function
	}
	var work []target
	for _, ct := range targets {
		fn := W.FindFunc(ct)
		if fn == nil || len(fn.Blocks) == 0 {
			stale = append(stale, ct.Key())
			continue
		}
		if fn.TypeParams().Len() > 0 {
			// generic: verify every instantiation reachable in the loaded packages
			insts := W.instancesOf(fn)
			if len(insts) == 0 {
				stale = append(stale, ct.Key()+" (generic, no instantiation in the loaded packages)")
			}
			for _, in := range insts {
				work = append(work, target{ct, in})
			}
			continue
		}
		work = append(work, target{ct, fn})
	}
	for _, tg := range work {
		ct, fn := tg.ct, tg.fn
		ex := NewExec(W, prop)
		ex.instSuffix = instSuffix(fn)
		rep := func() (rep *FnReport) {
			defer func() {
				if r := recover(); r != nil {
					W.errors = append(W.errors, fmt.Sprintf("%s: engine error: %v", ct.Key(), r))
					if *verbose {
						panic(r)
					}
				}
			}()
			return ex.VerifyFunc(ct, fn)
		}()
		if rep != nil {
			reports = append(reports, rep)
		}
		if ins := replayInputs(ct.Key()); len(ins) > 0 && ex.entryEval != nil {
			named := map[string]*Term{}
			for n, e := range ins {
				t, err := ex.entryEval(e)
				if err != nil {
					W.errors = append(W.errors, fmt.Sprintf("replay template of %s: input %s: %v", ct.Key(), n, err))
					continue
				}
				named[n] = t
			}
			for _, o := range ex.obligs {
				o.Named = named
			}
		}
		for _, o := range ex.obligs {
			results = append(results, &oblResult{ob: o, ex: ex})
		}
		mergeNotes(ex, notes, trusted, inlined, havocked, usedContracts)
	}
	for _, lm := range lemmas {
		ex := NewExec(W, prop)
		rep := func() (rep *FnReport) {
			defer func() {
				if r := recover(); r != nil {
					W.errors = append(W.errors, fmt.Sprintf("lemma %s: engine error: %v", lm.Name, r))
					if *verbose {
						panic(r)
					}
				}
			}()
			return ex.VerifyLemma(lm)
		}()
		if rep != nil {
			reports = append(reports, rep)
		}
		for _, o := range ex.obligs {
			results = append(results, &oblResult{ob: o, ex: ex})
		}
		mergeNotes(ex, notes, trusted, inlined, havocked, usedContracts)
	}
	genSeconds := time.Since(genT0).Seconds()

	if len(W.errors) > 0 {
		for _, e := range W.errors {
			fmt.Println("CONTRACT-ERROR:", e)
		}
	}

	timeout := 10
	all := false
	if *tier == "thorough" {
		timeout = 60
		all = true
	}
	// attach known-finding classes
	for _, r := range results {
		for _, kf := range known {
			if kf.Property == prop && kf.Obligation == r.ob.Name && kf.Status != "fixed" {
				r.known = kf
			}
		}
	}
	solveT0 := time.Now()
	for _, r := range results {
		r.q = r.ex.scriptFor(r.ob, nil).Prepare()
		if !r.ob.Cover {
			if sl := r.ex.slicedScript(r.ob); sl != nil {
				r.qSliced = sl.Prepare()
			}
		}
		if r.known != nil && !r.ob.Cover && r.known.Class != "" {
			cls, err := r.ex.knownClass(r.known, W)
			if err != nil {
				W.errors = append(W.errors, fmt.Sprintf("known finding %s: %v", r.known.Obligation, err))
			} else {
				r.qOutside = r.ex.scriptFor(r.ob, cls).Prepare()
			}
		}
	}
	forEachParallel(len(results), 12, func(i int) {
		r := results[i]
		if r.qSliced != nil {
			// first the same obligation with only the assumptions in the cone of influence of the goal
			// (dropping assumptions is sound: only an 'unsat' answer of this stage is used)
			sres := Solve(r.qSliced, outDir, r.ob.Name+".sliced", 4, false)
			if sres.Status == "unsat" {
				sres.Solver += " (sliced assumptions)"
				r.res = sres
				return
			}
		}
		to := timeout
		if r.ob.Cover && to > 3 {
			to = 3 // satisfiability (non-vacuity) probes: an undecided probe is reported, never fatal
		}
		r.res = Solve(r.q, outDir, r.ob.Name, to, all && !r.ob.Cover)
		if !r.ob.Cover && (r.res.Status == "timeout" || r.res.Status == "unknown" || r.res.Status == "error") {
			// an undecided answer is retried once with a much longer limit before it is reported
			// (a loaded machine must not turn a proved obligation into an alarm)
			if r.qSliced != nil {
				if sres := Solve(r.qSliced, outDir, r.ob.Name+".sliced", to*4, false); sres.Status == "unsat" {
					sres.Solver += " (sliced assumptions, retry)"
					r.res = sres
					return
				}
			}
			again := Solve(r.q, outDir, r.ob.Name, to*6, false)
			if again.Status == "unsat" || again.Status == "sat" {
				again.Solver += " (retry)"
				r.res = again
			}
		}
		if r.qOutside != nil && r.res.Status != "unsat" {
			r.outside = Solve(r.qOutside, outDir, r.ob.Name+".outside-known-class", timeout, all)
		}
	})
	solveSeconds := time.Since(solveT0).Seconds()

	// baseline
	basePath := filepath.Join(verifDir, "baseline", prop+".json")
	baseline := map[string]bool{}
	baselineStems := map[string]bool{}
	if data, err := os.ReadFile(basePath); err == nil {
		var names []string
		json.Unmarshal(data, &names)
		for _, n := range names {
			baseline[n] = true
			// the same clause at a renumbered back edge or call site (control flow changed) is still that clause
			baselineStems[obligationStem(n)] = true
		}
	}

	exit := 0
	violations := 0
	discharged := 0
	nObl := 0
	var undecided, vacuous, missing []string
	var samples []map[string]interface{}
	var oblRecords []map[string]interface{}
	var newBaseline []string
	solverTime := 0.0
	seen := map[string]bool{}
	for _, r := range results {
		o := r.ob
		seen[o.Name] = true
		rec := map[string]interface{}{"name": o.Name, "kind": o.Kind, "status": r.res.Status, "solver": r.res.Solver, "seconds": round3(r.res.Seconds)}
		solverTime += r.res.Seconds
		if o.Cover {
			// non-vacuity: the context must be satisfiable
			rec["expect"] = "sat"
			switch r.res.Status {
			case "sat":
			case "unsat":
				vacuous = append(vacuous, o.Name)
			default:
				rec["note"] = "cover query undecided"
			}
			oblRecords = append(oblRecords, rec)
			continue
		}
		nObl++
		ok := r.res.Status == "unsat"
		if ok {
			discharged++
			newBaseline = append(newBaseline, o.Name)
			if len(samples) < 4 {
				samples = append(samples, map[string]interface{}{"obligation": o.Name, "kind": o.Kind, "clause": clauseText(o), "status": "unsat", "solver": r.res.Solver, "smt2": r.res.File})
			}
		} else if r.known != nil {
			// listed finding: fine if every failure is inside the listed class
			insideOnly := r.known.Class == "" || (r.outside != nil && r.outside.Status == "unsat")
			if insideOnly {
				fmt.Printf("KNOWN-FINDING: property=%s %s [%s]\n", prop, r.known.What, o.Name)
				rec["known_finding"] = r.known.What
				discharged++ // decided: holds outside the recorded class
				rec["status_outside_known_class"] = "unsat"
			} else {
				violations++
				path := writeReplay(prop, o, r, W, "fails outside the recorded known-finding class")
				fmt.Printf("VIOLATION property=%s replay=%s%s\n", prop, path, replaySuffix(path))
				exit = 1
			}
		} else if W.contractStale(o.Fn) {
			// a clause of this function's contract no longer evaluates (e.g. a local it names was renamed):
			// the proof may fail for lack of that clause alone - undecided, not a violation
			undecided = append(undecided, o.Name+" ("+r.res.Status+"; CONTRACT-STALE: a clause of this contract does not evaluate on this tree)")
		} else if baseline[o.Name] || baselineStems[obligationStem(o.Name)] || (o.Kind == "frame" && baseline[o.Fn+"/frame:(declared)"]) {
			violations++
			path := writeReplay(prop, o, r, W, "")
			fmt.Printf("VIOLATION property=%s replay=%s%s\n", prop, path, replaySuffix(path))
			exit = 1
		} else {
			// never part of the baseline: try to confirm on the real code; otherwise undecided
			path := writeReplay(prop, o, r, W, "")
			if replayReproduced(path) {
				violations++
				fmt.Printf("VIOLATION property=%s replay=%s\n", prop, path)
				exit = 1
			} else {
				undecided = append(undecided, o.Name+" ("+r.res.Status+")")
			}
		}
		oblRecords = append(oblRecords, rec)
	}
	for n := range baseline {
		if !seen[n] {
			missing = append(missing, n)
		}
	}
	sort.Strings(missing)
	for _, fx := range known {
		if fx.Property == prop && fx.Status == "fixed" {
			// fixed entries suppress nothing; recorded for the reader only
		}
	}
	if len(vacuous) > 0 {
		fmt.Println("VACUOUS (contradictory assumptions):", strings.Join(vacuous, ", "))
	}
	if *update {
		sort.Strings(newBaseline)
		os.MkdirAll(filepath.Dir(basePath), 0o755)
		b, _ := json.MarshalIndent(newBaseline, "", " ")
		os.WriteFile(basePath, append(b, '\n'), 0o644)
	}

	level := "proof"
	if discharged != nObl || len(stale) > 0 || len(missing) > 0 || len(W.errors) > 0 || nObl == 0 {
		level = "other"
	}
	var fnRecs []map[string]interface{}
	var assumptions []string
	assumptions = append(assumptions, cfg.Assumptions...)
	for _, rep := range reports {
		fnRecs = append(fnRecs, map[string]interface{}{"function": rep.Key, "contract_at": fmt.Sprintf("%s:%d", rel(rep.File), rep.Line), "ssa_blocks": rep.Blocks, "ssa_instructions": rep.SSAInstrs, "loops": rep.Loops, "ensures": rep.NEnsures, "invariants": rep.NInvs})
		for _, r := range rep.Requires {
			assumptions = append(assumptions, fmt.Sprintf("precondition of %s assumed at entry (callers outside the verified set are not checked): %s", shortKey(rep.Key), r))
		}
		for _, r := range rep.Domains {
			assumptions = append(assumptions, fmt.Sprintf("assume-domain in %s: %s", shortKey(rep.Key), r))
		}
	}
	for _, k := range sortedKeys(trusted) {
		if strings.HasPrefix(k, "lib:") {
			assumptions = append(assumptions, "trusted library specification: "+strings.TrimPrefix(k, "lib:"))
		} else {
			assumptions = append(assumptions, "trusted (unverified) contract: "+k)
		}
	}
	for _, k := range sortedKeys(usedContracts) {
		assumptions = append(assumptions, "callee contract used at call sites (proved where that function is listed under functions_under_contract, otherwise assumed): "+k)
	}
	for k, n := range havocked {
		assumptions = append(assumptions, fmt.Sprintf("over-approximated (all modelled heap havocked, results unconstrained) x%d: %s", n, k))
	}
	for k, n := range notes {
		assumptions = append(assumptions, fmt.Sprintf("engine note x%d: %s", n, k))
	}
	sort.Strings(assumptions[len(cfg.Assumptions):])
	if len(samples) == 0 {
		for _, rec := range oblRecords {
			samples = append(samples, rec)
			break
		}
	}
	cov := map[string]interface{}{
		"obligations": nObl,
		"discharged":  discharged,
		"checker_cmd": fmt.Sprintf("cd /verif && ./check %s --tier %s  (govc: go/ssa of /repo working tree -> VCs -> SMT portfolio)", prop, *tier),
		"trusted_base": []string{
			"golang.org/x/tools v0.29.0 go/packages + go/ssa as the semantics of the Go source in /repo",
			"govc VC generator (this directory), self-tested against must-fail mutants",
			"SMT solvers: z3 5.1.0 (z3-new), z3 4.8.12, cvc5 1.0 (first definite answer; all must agree in the thorough tier)",
		},
		"functions_under_contract": fnRecs,
		"obligation_results":       oblRecords,
		"samples":                  samples,
		"cover_queries":            len(results) - nObl,
		"vacuous":                  vacuous,
		"undecided_new":            undecided,
		"missing_from_baseline":    missing,
		"stale_contracts":          stale,
		"contract_errors":          W.errors,
		"inlined_functions":        sortedKeys(inlined),
		"contract_files":           relAll(W.contractFiles),
		"solver_seconds":           round3(solverTime),
		"load_seconds":             round3(W.loadSeconds),
		"vcgen_seconds":            round3(genSeconds),
		"solve_wall_seconds":       round3(solveSeconds),
		"baseline_size":            len(baseline),
		"not_reached":              cfg.NotReached,
		"integer_semantics":        "every Go integer is an SMT Int with explicit wrap-around at its width (machine arithmetic modelled exactly; contract arithmetic is mathematical)",
	}
	if level != "proof" {
		cov["explanation"] = fmt.Sprintf("not every claimed obligation was discharged on this tree: %d of %d; stale contracts %v; missing %v; contract errors %d", discharged, nObl, stale, missing, len(W.errors))
	}
	ev := map[string]interface{}{
		"property_id": prop,
		"tier":        *tier,
		"seed":        seed,
		"level":       level,
		"coverage":    cov,
		"assumptions": assumptions,
		"wall_s":      round3(time.Since(t0).Seconds()),
		"violations":  violations,
	}
	os.MkdirAll(filepath.Join(verifDir, "evidence"), 0o755)
	b, _ := json.MarshalIndent(ev, "", " ")
	os.WriteFile(filepath.Join(verifDir, "evidence", prop+".json"), append(b, '\n'), 0o644)

	fmt.Printf("%s: %d obligations, %d discharged, %d undecided-new, %d violations, %d stale, %d missing-from-baseline, %d vacuous; load %.1fs vcgen %.1fs solve %.1fs\n",
		prop, nObl, discharged, len(undecided), violations, len(stale), len(missing), len(vacuous), W.loadSeconds, genSeconds, solveSeconds)
	if *verbose || len(undecided) > 0 {
		for _, u := range undecided {
			fmt.Println("  undecided:", u)
		}
	}
	for _, s := range stale {
		fmt.Println("  CONTRACT-STALE (function not found in the current tree):", s)
	}
	for _, m := range missing {
		fmt.Println("  MISSING (in baseline, not generated from the current tree):", m)
	}
	if !*keep && exit == 0 && *tier == "quick" {
		// keep the SMT files of the last run for audit; they are small
	}
	if (len(vacuous) > 0 || len(W.errors) > 0) && exit == 0 {
		// part of the contracts could not be applied to this tree: what was explored held, the rest is not
		// decided (the evidence file says so: level "other"). Not a violation, so not a failing exit code.
		fmt.Printf("UNDECIDED property=%s: %d contract clause(s) do not apply to this tree, %d vacuous obligation(s); nothing that was checked failed\n", prop, len(W.errors), len(vacuous))
	}
	// An obligation that was proved on the unchanged tree and is no longer generated means the
	// code it was attached to is gone; the property is then undecided for that part, which is reported
	// in the evidence (level other) but is not by itself a violation.
	return exit
}

func contractServes(ct *Contract, prop string) bool {
	for _, p := range ct.Props {
		if p == prop {
			return true
		}
	}
	if len(ct.Props) > 0 {
		return false
	}
	for _, cls := range [][]*Clause{ct.Ensures, ct.Invs, ct.Asserts} {
		for _, cl := range cls {
			for _, t := range cl.Tags {
				if t == prop {
					return true
				}
			}
		}
	}
	return false
}

func mergeNotes(ex *Exec, notes map[string]int, trusted, inlined map[string]bool, havocked map[string]int, used map[string]bool) {
	for k, n := range ex.notes {
		notes[k] += n
	}
	for k := range ex.trustedUsed {
		trusted[k] = true
	}
	for k := range ex.inlined {
		inlined[k] = true
	}
	for k, n := range ex.havocked {
		havocked[k] += n
	}
	for k := range ex.usedContracts {
		used[k] = true
	}
}

func sortedKeys(m map[string]bool) []string {
	var out []string
	for k := range m {
		out = append(out, k)
	}
	sort.Strings(out)
	return out
}

func round3(x float64) float64 { return float64(int(x*1000+0.5)) / 1000 }

func rel(p string) string { return strings.TrimPrefix(p, "/repo/") }

func relAll(ps []string) []string {
	var out []string
	for _, p := range ps {
		out = append(out, rel(p))
	}
	return out
}

func shortKey(k string) string { return strings.TrimPrefix(k, lavaMod+"/") }

func clauseText(o *Obligation) string {
	if o.Clause != nil {
		return o.Clause.Text
	}
	return ""
}

// scriptFor builds the SMT query of an obligation. extra (optional) is asserted as well
// (used to exclude a recorded known-finding class).
func (ex *Exec) scriptFor(o *Obligation, extra *Term) *Script {
	sc := &Script{f: ex.f}
	sc.asserts = append(sc.asserts, ex.assumes[:o.NAssume]...)
	sc.asserts = append(sc.asserts, o.PC)
	if !o.Cover {
		sc.asserts = append(sc.asserts, ex.f.Not(o.Goal))
	}
	if extra != nil {
		sc.asserts = append(sc.asserts, extra)
	}
	// model values: parameters, named replay inputs and reads of the entry heap
	vals := append([]*Term{}, o.Inputs...)
	var names []string
	seen := map[*Term]bool{}
	for _, v := range vals {
		seen[v] = true
		names = append(names, v.name)
	}
	for _, n := range sortedTermKeys(o.Named) {
		vals = append(vals, o.Named[n])
		names = append(names, "in."+n)
	}
	order, _ := ex.f.collect(sc.asserts)
	for _, t := range order {
		if len(vals) > 300 {
			break
		}
		if t.bound || seen[t] {
			continue
		}
		take := false
		if t.op == "select" && t.args[0].op == "var" && strings.HasSuffix(t.args[0].name, "@0") && !t.sort.IsArray() {
			take = true
		} else if t.op == "var" && !t.sort.IsArray() && (strings.Contains(t.name, ".r") || strings.HasPrefix(t.name, "fv.")) && !strings.HasPrefix(t.name, "frontier") &&
			!strings.HasPrefix(t.name, "LogAttr") && !strings.HasPrefix(t.name, "err!") {
			take = true
		} else if t.op == "app" && strings.HasPrefix(t.name, "fn.") && !t.sort.IsArray() {
			take = true
		}
		if take {
			vals = append(vals, t)
			seen[t] = true
			names = append(names, ex.f.Show(t))
		}
	}
	sc.getVals = vals
	sc.valNames = names
	return sc
}

// knownClass evaluates the class expression of a known finding in the entry state of its function
// and returns its negation (the query then asks for a failure outside the class).
func (ex *Exec) knownClass(kf *KnownFinding, W *World) (*Term, error) {
	for _, lm := range W.lemmas {
		if strings.HasPrefix(kf.Obligation, lm.Pkg+".lemma:"+lm.Name+"/") {
			ld, err := parseLemma(lm.LemmaText)
			if err != nil {
				return nil, err
			}
			st := &State{pc: ex.f.True(), heap: map[string]*Term{}, gen: 0, frontier: ex.f.Var("A0", SInt), world: ex.f.Var("world0", SInt)}
			ctx := ex.newEvalCtx(nil, st, st)
			for _, p := range ld.params {
				s := SInt
				switch p.typ {
				case "Bool", "bool":
					s = SBool
				case "Str", "string":
					s = SStr
				case "Real":
					s = SReal
				}
				ctx.vars[p.name] = CV{ex.f.Var("l."+p.name, s), nil}
			}
			t, err := ctx.evalBool(kf.Class)
			if err != nil {
				return nil, err
			}
			return ex.f.Not(t), nil
		}
	}
	var ct *Contract
	for _, c := range W.contracts {
		if strings.HasPrefix(kf.Obligation, c.Key()+"/") {
			ct = c
		}
	}
	if ct == nil {
		return nil, fmt.Errorf("no contract for obligation %s", kf.Obligation)
	}
	fn := W.FindFunc(ct)
	if fn == nil {
		return nil, fmt.Errorf("function not found")
	}
	st := &State{pc: ex.f.True(), heap: map[string]*Term{}, gen: 0, frontier: ex.f.Var("A0", SInt), world: ex.f.Var("world0", SInt)}
	ctx := ex.newEvalCtx(fn, st, st)
	for _, p := range fn.Params {
		ctx.vars[p.Name()] = CV{ex.f.Var("p."+sanitize(p.Name()), ex.tm.SortOf(p.Type())), p.Type()}
	}
	t, err := ctx.evalBool(kf.Class)
	if err != nil {
		return nil, err
	}
	return ex.f.Not(t), nil
}

func replaySuffix(path string) string {
	if replayReproduced(path) {
		return ""
	}
	return " no-failing-input-found"
}

func sortedTermKeys(m map[string]*Term) []string {
	var out []string
	for k := range m {
		out = append(out, k)
	}
	sort.Strings(out)
	return out
}

// replayInputs reads the "// input NAME = <contract expr>" lines of a function's replay template.
func replayInputs(fnKey string) map[string]string {
	key := strings.TrimPrefix(fnKey, lavaMod+"/")
	b, err := os.ReadFile(filepath.Join(verifDir, "replay", sanitizeFile(key)+".tmpl"))
	if err != nil {
		return nil
	}
	out := map[string]string{}
	for _, line := range strings.Split(string(b), "\n") {
		line = strings.TrimSpace(line)
		if strings.HasPrefix(line, "// input ") {
			rest := strings.TrimPrefix(line, "// input ")
			if n, e, ok := strings.Cut(rest, "="); ok {
				out[strings.TrimSpace(n)] = strings.TrimSpace(e)
			}
		}
	}
	return out
}
