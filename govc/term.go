package main

// Hash-consed SMT terms with a light simplifier and a DAG printer.

import (
	"fmt"
	"math/big"
	"sort"
	"strings"
)

type Sort string

const (
	SInt  Sort = "Int"
	SBool Sort = "Bool"
	SReal Sort = "Real"
	SStr  Sort = "Str"
)

func ArraySort(k, v Sort) Sort { return Sort("(Array " + string(k) + " " + string(v) + ")") }

func (s Sort) IsArray() bool { return strings.HasPrefix(string(s), "(Array ") }

// ArrayParts splits "(Array K V)" into K and V.
func (s Sort) ArrayParts() (Sort, Sort) {
	str := string(s)
	str = str[len("(Array ") : len(str)-1]
	depth := 0
	for i := 0; i < len(str); i++ {
		switch str[i] {
		case '(':
			depth++
		case ')':
			depth--
		case ' ':
			if depth == 0 {
				return Sort(str[:i]), Sort(str[i+1:])
			}
		}
	}
	panic("bad array sort " + string(s))
}

type Term struct {
	id    int
	op    string // "var","int","bool","real","app", smt operator names, "mk:<DT>", "acc:<DT>:<field>", "forall","exists","bound"
	name  string // var / app / bound name
	args  []*Term
	sort  Sort
	ival  *big.Int
	bound bool    // contains a bound variable
	bvars []*Term // for quantifiers
}

type TermFactory struct {
	tab   map[string]*Term
	n     int
	vars  map[string]*Term // declared variables
	funcs map[string]*FuncDecl
	fresh map[string]int
	dts   *DTRegistry
	axioms map[string]string // function name -> defining axiom (SMT-LIB text), emitted when the function is used
}

type FuncDecl struct {
	name string
	args []Sort
	ret  Sort
}

func NewFactory() *TermFactory {
	return &TermFactory{tab: map[string]*Term{}, vars: map[string]*Term{}, funcs: map[string]*FuncDecl{}, fresh: map[string]int{}, dts: NewDTRegistry(), axioms: map[string]string{}}
}

func (f *TermFactory) intern(t *Term) *Term {
	var sb strings.Builder
	sb.WriteString(t.op)
	sb.WriteByte('|')
	sb.WriteString(t.name)
	sb.WriteByte('|')
	sb.WriteString(string(t.sort))
	if t.ival != nil {
		sb.WriteByte('|')
		sb.WriteString(t.ival.String())
	}
	for _, a := range t.args {
		fmt.Fprintf(&sb, ",%d", a.id)
		if a.bound {
			t.bound = true
		}
	}
	for _, a := range t.bvars {
		fmt.Fprintf(&sb, ";%d", a.id)
	}
	if t.op == "bound" {
		t.bound = true
	}
	k := sb.String()
	if e, ok := f.tab[k]; ok {
		return e
	}
	f.n++
	t.id = f.n
	f.tab[k] = t
	return t
}

func (f *TermFactory) Var(name string, s Sort) *Term {
	if v, ok := f.vars[name]; ok {
		if v.sort != s {
			panic(fmt.Sprintf("var %s redeclared with sort %s (was %s)", name, s, v.sort))
		}
		return v
	}
	t := f.intern(&Term{op: "var", name: name, sort: s})
	f.vars[name] = t
	return t
}

func (f *TermFactory) Fresh(prefix string, s Sort) *Term {
	prefix = sanitize(prefix)
	for {
		f.fresh[prefix]++
		name := fmt.Sprintf("%s!%d", prefix, f.fresh[prefix])
		if _, ok := f.vars[name]; !ok {
			return f.Var(name, s)
		}
	}
}

func (f *TermFactory) Bound(name string, s Sort) *Term {
	f.fresh["$b"]++
	return f.intern(&Term{op: "bound", name: fmt.Sprintf("%s$%d", sanitize(name), f.fresh["$b"]), sort: s})
}

func sanitize(s string) string {
	var sb strings.Builder
	for _, r := range s {
		switch {
		case r >= 'a' && r <= 'z', r >= 'A' && r <= 'Z', r >= '0' && r <= '9', r == '_', r == '.', r == '!', r == '$':
			sb.WriteRune(r)
		default:
			sb.WriteByte('_')
		}
	}
	if sb.Len() == 0 {
		return "_"
	}
	return sb.String()
}

func (f *TermFactory) Int(v int64) *Term { return f.BigInt(big.NewInt(v)) }
func (f *TermFactory) BigInt(v *big.Int) *Term {
	return f.intern(&Term{op: "int", sort: SInt, ival: new(big.Int).Set(v)})
}
func (f *TermFactory) Real(v *big.Int) *Term {
	return f.intern(&Term{op: "real", sort: SReal, ival: new(big.Int).Set(v)})
}
func (f *TermFactory) RealLit(s string) *Term {
	return f.intern(&Term{op: "reallit", name: s, sort: SReal})
}
func (f *TermFactory) Bool(b bool) *Term {
	n := "false"
	if b {
		n = "true"
	}
	return f.intern(&Term{op: "bool", name: n, sort: SBool})
}
func (f *TermFactory) True() *Term  { return f.Bool(true) }
func (f *TermFactory) False() *Term { return f.Bool(false) }

func (t *Term) IsTrue() bool  { return t.op == "bool" && t.name == "true" }
func (t *Term) IsFalse() bool { return t.op == "bool" && t.name == "false" }
func (t *Term) IsIntConst() bool {
	return t.op == "int"
}

func (f *TermFactory) mk(op string, s Sort, args ...*Term) *Term {
	return f.intern(&Term{op: op, sort: s, args: args})
}

// App applies an uninterpreted function, declaring it on first use.
func (f *TermFactory) App(name string, ret Sort, args ...*Term) *Term {
	name = sanitize(name)
	fd, ok := f.funcs[name]
	if !ok {
		fd = &FuncDecl{name: name, ret: ret}
		for _, a := range args {
			fd.args = append(fd.args, a.sort)
		}
		f.funcs[name] = fd
	} else {
		if fd.ret != ret || len(fd.args) != len(args) {
			panic(fmt.Sprintf("function %s used with different signature", name))
		}
		for i, a := range args {
			if fd.args[i] != a.sort {
				panic(fmt.Sprintf("function %s arg %d sort %s, was %s", name, i, a.sort, fd.args[i]))
			}
		}
	}
	if len(args) == 0 {
		return f.Var(name, ret)
	}
	return f.intern(&Term{op: "app", name: name, sort: ret, args: args})
}

func (f *TermFactory) Not(a *Term) *Term {
	if a.IsTrue() {
		return f.False()
	}
	if a.IsFalse() {
		return f.True()
	}
	if a.op == "not" {
		return a.args[0]
	}
	return f.mk("not", SBool, a)
}

func (f *TermFactory) And(as ...*Term) *Term {
	var out []*Term
	seen := map[int]bool{}
	var add func(a *Term) bool
	add = func(a *Term) bool {
		if a.IsTrue() {
			return true
		}
		if a.IsFalse() {
			return false
		}
		if a.op == "and" {
			for _, x := range a.args {
				if !add(x) {
					return false
				}
			}
			return true
		}
		if !seen[a.id] {
			seen[a.id] = true
			out = append(out, a)
		}
		return true
	}
	for _, a := range as {
		if !add(a) {
			return f.False()
		}
	}
	for _, a := range out {
		if a.op == "not" && seen[a.args[0].id] {
			return f.False()
		}
	}
	if len(out) == 0 {
		return f.True()
	}
	if len(out) == 1 {
		return out[0]
	}
	return f.mk("and", SBool, out...)
}

func (f *TermFactory) Or(as ...*Term) *Term {
	var out []*Term
	seen := map[int]bool{}
	for _, a := range as {
		if a.IsFalse() {
			continue
		}
		if a.IsTrue() {
			return f.True()
		}
		if a.op == "or" {
			for _, x := range a.args {
				if !seen[x.id] {
					seen[x.id] = true
					out = append(out, x)
				}
			}
			continue
		}
		if !seen[a.id] {
			seen[a.id] = true
			out = append(out, a)
		}
	}
	for _, a := range out {
		if a.op == "not" && seen[a.args[0].id] {
			return f.True()
		}
	}
	if len(out) == 0 {
		return f.False()
	}
	if len(out) == 1 {
		return out[0]
	}
	return f.mk("or", SBool, out...)
}

func (f *TermFactory) Implies(a, b *Term) *Term {
	if a.IsTrue() {
		return b
	}
	if a.IsFalse() || b.IsTrue() {
		return f.True()
	}
	if b.IsFalse() {
		return f.Not(a)
	}
	return f.mk("=>", SBool, a, b)
}

func (f *TermFactory) Ite(c, a, b *Term) *Term {
	if c.IsTrue() {
		return a
	}
	if c.IsFalse() {
		return b
	}
	if a == b {
		return a
	}
	if a.sort != b.sort {
		panic(fmt.Sprintf("ite sort mismatch %s vs %s", a.sort, b.sort))
	}
	if a.sort == SBool {
		if a.IsTrue() && b.IsFalse() {
			return c
		}
		if a.IsFalse() && b.IsTrue() {
			return f.Not(c)
		}
		if a.IsTrue() {
			return f.Or(c, b)
		}
		if b.IsFalse() {
			return f.And(c, a)
		}
		if a.IsFalse() {
			return f.And(f.Not(c), b)
		}
		if b.IsTrue() {
			return f.Or(f.Not(c), a)
		}
	}
	// ite(c, x, ite(c, y, z)) -> ite(c, x, z)
	if b.op == "ite" && b.args[0] == c {
		return f.Ite(c, a, b.args[2])
	}
	if a.op == "ite" && a.args[0] == c {
		return f.Ite(c, a.args[1], b)
	}
	return f.mk("ite", a.sort, c, a, b)
}

func (f *TermFactory) Eq(a, b *Term) *Term {
	if a == b {
		return f.True()
	}
	if a.sort != b.sort {
		panic(fmt.Sprintf("eq sort mismatch %s vs %s (%s , %s)", a.sort, b.sort, f.Show(a), f.Show(b)))
	}
	if a.op == "int" && b.op == "int" {
		return f.Bool(a.ival.Cmp(b.ival) == 0)
	}
	if a.op == "bool" && b.op == "bool" {
		return f.Bool(a.name == b.name)
	}
	if a.op == "strlit" && b.op == "strlit" {
		return f.Bool(a.name == b.name)
	}
	if a.sort == SBool {
		if a.IsTrue() {
			return b
		}
		if b.IsTrue() {
			return a
		}
		if a.IsFalse() {
			return f.Not(b)
		}
		if b.IsFalse() {
			return f.Not(a)
		}
	}
	if a.id > b.id {
		a, b = b, a
	}
	return f.mk("=", SBool, a, b)
}

func (f *TermFactory) Neq(a, b *Term) *Term { return f.Not(f.Eq(a, b)) }

func (f *TermFactory) cmp(op string, a, b *Term) *Term {
	if a.op == "int" && b.op == "int" {
		c := a.ival.Cmp(b.ival)
		switch op {
		case "<":
			return f.Bool(c < 0)
		case "<=":
			return f.Bool(c <= 0)
		case ">":
			return f.Bool(c > 0)
		case ">=":
			return f.Bool(c >= 0)
		}
	}
	if a == b {
		return f.Bool(op == "<=" || op == ">=")
	}
	return f.mk(op, SBool, a, b)
}
func (f *TermFactory) Lt(a, b *Term) *Term { return f.cmp("<", a, b) }
func (f *TermFactory) Le(a, b *Term) *Term { return f.cmp("<=", a, b) }
func (f *TermFactory) Gt(a, b *Term) *Term { return f.cmp(">", a, b) }
func (f *TermFactory) Ge(a, b *Term) *Term { return f.cmp(">=", a, b) }

func (f *TermFactory) numSort(a, b *Term) Sort {
	if a.sort == SReal || b.sort == SReal {
		return SReal
	}
	return SInt
}

func (f *TermFactory) Add(a, b *Term) *Term {
	if a.op == "int" && b.op == "int" {
		return f.BigInt(new(big.Int).Add(a.ival, b.ival))
	}
	if a.op == "int" && a.ival.Sign() == 0 {
		return b
	}
	if b.op == "int" && b.ival.Sign() == 0 {
		return a
	}
	return f.mk("+", f.numSort(a, b), a, b)
}
func (f *TermFactory) Sub(a, b *Term) *Term {
	if a.op == "int" && b.op == "int" {
		return f.BigInt(new(big.Int).Sub(a.ival, b.ival))
	}
	if b.op == "int" && b.ival.Sign() == 0 {
		return a
	}
	if a == b && a.sort == SInt {
		return f.Int(0)
	}
	return f.mk("-", f.numSort(a, b), a, b)
}
func (f *TermFactory) Neg(a *Term) *Term {
	if a.op == "int" {
		return f.BigInt(new(big.Int).Neg(a.ival))
	}
	return f.mk("-", a.sort, a)
}
func (f *TermFactory) Mul(a, b *Term) *Term {
	if a.op == "int" && b.op == "int" {
		return f.BigInt(new(big.Int).Mul(a.ival, b.ival))
	}
	if a.op == "int" && a.ival.Cmp(big.NewInt(1)) == 0 {
		return b
	}
	if b.op == "int" && b.ival.Cmp(big.NewInt(1)) == 0 {
		return a
	}
	if (a.op == "int" && a.ival.Sign() == 0) || (b.op == "int" && b.ival.Sign() == 0) {
		if f.numSort(a, b) == SInt {
			return f.Int(0)
		}
	}
	return f.mk("*", f.numSort(a, b), a, b)
}

// Div and Mod are SMT-LIB euclidean div/mod on Int.
func (f *TermFactory) Div(a, b *Term) *Term {
	if a.op == "int" && b.op == "int" && b.ival.Sign() != 0 {
		q, _ := new(big.Int).DivMod(a.ival, b.ival, new(big.Int))
		return f.BigInt(q)
	}
	return f.mk("div", SInt, a, b)
}
func (f *TermFactory) Mod(a, b *Term) *Term {
	if a.op == "int" && b.op == "int" && b.ival.Sign() != 0 {
		_, m := new(big.Int).DivMod(a.ival, b.ival, new(big.Int))
		return f.BigInt(m)
	}
	return f.mk("mod", SInt, a, b)
}
func (f *TermFactory) RDiv(a, b *Term) *Term { return f.mk("/", SReal, a, b) }
func (f *TermFactory) ToReal(a *Term) *Term {
	if a.sort == SReal {
		return a
	}
	if a.op == "int" {
		return f.Real(a.ival)
	}
	return f.mk("to_real", SReal, a)
}
func (f *TermFactory) ToInt(a *Term) *Term { return f.mk("to_int", SInt, a) }

func (f *TermFactory) Select(arr, idx *Term) *Term {
	ks, vs := arr.sort.ArrayParts()
	if idx.sort != ks {
		panic(fmt.Sprintf("select index sort %s, want %s", idx.sort, ks))
	}
	// read-over-write simplification
	cur := arr
	for cur.op == "store" {
		i := cur.args[1]
		if i == idx {
			return cur.args[2]
		}
		if i.op == "int" && idx.op == "int" { // distinct constants
			cur = cur.args[0]
			continue
		}
		break
	}
	if cur.op == "constarr" {
		return cur.args[0]
	}
	if cur.op == "ite" && cur.args[1].sort.IsArray() && (isPointwise(cur.args[1]) || isPointwise(cur.args[2])) {
		return f.Ite(cur.args[0], f.Select(cur.args[1], idx), f.Select(cur.args[2], idx))
	}
	if cur.op == "app" {
		// pointwise operations on coin sets: push the read through (their defining axioms say the same)
		switch cur.name {
		case "coins.add":
			return f.Add(f.Select(cur.args[0], idx), f.Select(cur.args[1], idx))
		case "coins.sub":
			return f.Sub(f.Select(cur.args[0], idx), f.Select(cur.args[1], idx))
		case "coins.mulint":
			return f.Mul(f.Select(cur.args[0], idx), cur.args[1])
		case "coins.quoint":
			return f.Div(f.Select(cur.args[0], idx), cur.args[1])
		case "deccoins.muldectrunc":
			return f.Div(f.Mul(f.Select(cur.args[0], idx), cur.args[1]), f.BigInt(new(big.Int).Exp(big.NewInt(10), big.NewInt(18), nil)))
		case "deccoins.quodectrunc":
			return f.Div(f.Mul(f.Select(cur.args[0], idx), f.BigInt(new(big.Int).Exp(big.NewInt(10), big.NewInt(18), nil))), cur.args[1])
		}
	}
	if cur.op == "ite" && (cur.args[1].op == "store" || cur.args[2].op == "store") && false {
		return f.Ite(cur.args[0], f.Select(cur.args[1], idx), f.Select(cur.args[2], idx))
	}
	return f.mk("select", vs, cur, idx)
}

func (f *TermFactory) Store(arr, idx, val *Term) *Term {
	ks, vs := arr.sort.ArrayParts()
	if idx.sort != ks || val.sort != vs {
		panic(fmt.Sprintf("store sorts: array %s idx %s val %s", arr.sort, idx.sort, val.sort))
	}
	if arr.op == "store" && arr.args[1] == idx {
		return f.Store(arr.args[0], idx, val)
	}
	return f.mk("store", arr.sort, arr, idx, val)
}

func (f *TermFactory) ConstArray(s Sort, v *Term) *Term {
	return f.intern(&Term{op: "constarr", sort: s, args: []*Term{v}})
}

func (f *TermFactory) StrLit(s string) *Term {
	return f.intern(&Term{op: "strlit", name: s, sort: SStr})
}

func (f *TermFactory) Forall(bvs []*Term, body *Term) *Term {
	if body.IsTrue() {
		return body
	}
	return f.intern(&Term{op: "forall", sort: SBool, args: []*Term{body}, bvars: bvs})
}
func (f *TermFactory) Exists(bvs []*Term, body *Term) *Term {
	if body.IsFalse() {
		return body
	}
	return f.intern(&Term{op: "exists", sort: SBool, args: []*Term{body}, bvars: bvs})
}

// Subst replaces variables/terms by id.
func (f *TermFactory) Subst(t *Term, m map[*Term]*Term) *Term {
	cache := map[*Term]*Term{}
	var rec func(t *Term) *Term
	rec = func(t *Term) *Term {
		if r, ok := m[t]; ok {
			return r
		}
		if len(t.args) == 0 {
			return t
		}
		if r, ok := cache[t]; ok {
			return r
		}
		changed := false
		na := make([]*Term, len(t.args))
		for i, a := range t.args {
			na[i] = rec(a)
			if na[i] != a {
				changed = true
			}
		}
		r := t
		if changed {
			r = f.Rebuild(t, na)
		}
		cache[t] = r
		return r
	}
	return rec(t)
}

// Rebuild constructs a term with the same operator through the simplifying constructors.
func (f *TermFactory) Rebuild(t *Term, a []*Term) *Term {
	switch t.op {
	case "not":
		return f.Not(a[0])
	case "and":
		return f.And(a...)
	case "or":
		return f.Or(a...)
	case "=>":
		return f.Implies(a[0], a[1])
	case "ite":
		return f.Ite(a[0], a[1], a[2])
	case "=":
		return f.Eq(a[0], a[1])
	case "<", "<=", ">", ">=":
		return f.cmp(t.op, a[0], a[1])
	case "+":
		return f.Add(a[0], a[1])
	case "-":
		if len(a) == 1 {
			return f.Neg(a[0])
		}
		return f.Sub(a[0], a[1])
	case "*":
		return f.Mul(a[0], a[1])
	case "div":
		return f.Div(a[0], a[1])
	case "mod":
		return f.Mod(a[0], a[1])
	case "select":
		return f.Select(a[0], a[1])
	case "store":
		return f.Store(a[0], a[1], a[2])
	case "forall":
		return f.Forall(t.bvars, a[0])
	case "exists":
		return f.Exists(t.bvars, a[0])
	}
	if strings.HasPrefix(t.op, "acc:") {
		return f.Acc(t.op[4:strings.LastIndex(t.op, ":")], t.op[strings.LastIndex(t.op, ":")+1:], a[0])
	}
	return f.intern(&Term{op: t.op, name: t.name, sort: t.sort, args: a, ival: t.ival, bvars: t.bvars})
}

// ---------- datatypes

type DTField struct {
	Name string
	Sort Sort
}
type DTDecl struct {
	Name   string
	Fields []DTField
	order  int
}
type DTRegistry struct {
	byName map[string]*DTDecl
	n      int
}

func NewDTRegistry() *DTRegistry { return &DTRegistry{byName: map[string]*DTDecl{}} }

func (f *TermFactory) DeclareDT(name string, fields []DTField) *DTDecl {
	if d, ok := f.dts.byName[name]; ok {
		return d
	}
	f.dts.n++
	d := &DTDecl{Name: name, Fields: fields, order: f.dts.n}
	f.dts.byName[name] = d
	return d
}

func (f *TermFactory) Mk(dt string, args ...*Term) *Term {
	d := f.dts.byName[dt]
	if d == nil {
		panic("unknown datatype " + dt)
	}
	if len(args) != len(d.Fields) {
		panic("datatype arity " + dt)
	}
	for i, a := range args {
		if a.sort != d.Fields[i].Sort {
			panic(fmt.Sprintf("datatype %s field %s sort %s got %s", dt, d.Fields[i].Name, d.Fields[i].Sort, a.sort))
		}
	}
	// eta: mk(acc0(x), acc1(x), ...) -> x
	if len(args) > 0 && strings.HasPrefix(args[0].op, "acc:"+dt+":") {
		x := args[0].args[0]
		ok := true
		for i, a := range args {
			if a.op != "acc:"+dt+":"+d.Fields[i].Name || a.args[0] != x {
				ok = false
				break
			}
		}
		if ok {
			return x
		}
	}
	return f.intern(&Term{op: "mk:" + dt, sort: Sort(dt), args: args})
}

func (f *TermFactory) Acc(dt, field string, x *Term) *Term {
	d := f.dts.byName[dt]
	if d == nil {
		panic("unknown datatype " + dt)
	}
	if x.sort != Sort(dt) {
		panic(fmt.Sprintf("accessor %s.%s on sort %s", dt, field, x.sort))
	}
	for i, fl := range d.Fields {
		if fl.Name == field {
			if x.op == "mk:"+dt {
				return x.args[i]
			}
			if x.op == "ite" {
				return f.Ite(x.args[0], f.Acc(dt, field, x.args[1]), f.Acc(dt, field, x.args[2]))
			}
			return f.intern(&Term{op: "acc:" + dt + ":" + field, sort: fl.Sort, args: []*Term{x}})
		}
	}
	panic("no field " + field + " in " + dt)
}

// With returns x with field replaced.
func (f *TermFactory) With(dt, field string, x, v *Term) *Term {
	d := f.dts.byName[dt]
	args := make([]*Term, len(d.Fields))
	for i, fl := range d.Fields {
		if fl.Name == field {
			args[i] = v
		} else {
			args[i] = f.Acc(dt, fl.Name, x)
		}
	}
	return f.Mk(dt, args...)
}

// ---------- printing

func smtIdent(s string) string {
	for _, r := range s {
		if !(r >= 'a' && r <= 'z' || r >= 'A' && r <= 'Z' || r >= '0' && r <= '9' || r == '_' || r == '.' || r == '!' || r == '$') {
			return "|" + s + "|"
		}
	}
	return s
}

func dtSel(dt, field string) string { return smtIdent(dt + "." + field) }

// Show prints a term fully inline (for diagnostics).
func (f *TermFactory) Show(t *Term) string {
	var sb strings.Builder
	f.write(&sb, t, nil)
	s := sb.String()
	if len(s) > 600 {
		s = s[:600] + "…"
	}
	return s
}

func (f *TermFactory) write(sb *strings.Builder, t *Term, names map[*Term]string) {
	if names != nil {
		if n, ok := names[t]; ok {
			sb.WriteString(n)
			return
		}
	}
	switch t.op {
	case "var", "bound":
		sb.WriteString(smtIdent(t.name))
	case "int":
		if t.ival.Sign() < 0 {
			sb.WriteString("(- " + new(big.Int).Neg(t.ival).String() + ")")
		} else {
			sb.WriteString(t.ival.String())
		}
	case "real":
		if t.ival.Sign() < 0 {
			sb.WriteString("(- " + new(big.Int).Neg(t.ival).String() + ".0)")
		} else {
			sb.WriteString(t.ival.String() + ".0")
		}
	case "reallit":
		sb.WriteString(t.name)
	case "bool":
		sb.WriteString(t.name)
	case "strlit":
		sb.WriteString(strLitName(t.name))
	case "constarr":
		sb.WriteString("((as const " + string(t.sort) + ") ")
		f.write(sb, t.args[0], names)
		sb.WriteString(")")
	case "forall", "exists":
		sb.WriteString("(" + t.op + " (")
		for _, b := range t.bvars {
			sb.WriteString("(" + smtIdent(b.name) + " " + string(b.sort) + ")")
		}
		sb.WriteString(") ")
		f.write(sb, t.args[0], names)
		sb.WriteString(")")
	default:
		head := t.op
		if t.op == "app" {
			head = smtIdent(t.name)
		} else if strings.HasPrefix(t.op, "mk:") {
			head = smtIdent("mk." + t.op[3:])
			if len(t.args) == 0 {
				sb.WriteString(head)
				return
			}
		} else if strings.HasPrefix(t.op, "acc:") {
			rest := t.op[4:]
			i := strings.LastIndex(rest, ":")
			head = dtSel(rest[:i], rest[i+1:])
		}
		sb.WriteString("(" + head)
		for _, a := range t.args {
			sb.WriteByte(' ')
			f.write(sb, a, names)
		}
		sb.WriteString(")")
	}
}

func strLitName(s string) string {
	var sb strings.Builder
	sb.WriteString("|s\"")
	for _, r := range s {
		if r == '|' || r == '\\' || r < 32 || r > 126 {
			fmt.Fprintf(&sb, "\\u%04x", r)
		} else {
			sb.WriteRune(r)
		}
	}
	sb.WriteString("\"|")
	return sb.String()
}

// Script renders a complete SMT-LIB query: declarations, asserts.
type Script struct {
	f       *TermFactory
	asserts []*Term
	getVals []*Term
	valNames []string // optional labels for getVals (same index)
	axioms  []string // raw SMT text axioms (library packs)
}

func (f *TermFactory) collect(roots []*Term) (order []*Term, refs map[*Term]int) {
	refs = map[*Term]int{}
	seen := map[*Term]bool{}
	var rec func(t *Term)
	rec = func(t *Term) {
		refs[t]++
		if seen[t] {
			return
		}
		seen[t] = true
		for _, a := range t.args {
			rec(a)
		}
		order = append(order, t)
	}
	for _, r := range roots {
		rec(r)
	}
	return
}

func (sc *Script) Render(cvc5 bool) string {
	f := sc.f
	var sb strings.Builder
	roots := append([]*Term{}, sc.asserts...)
	roots = append(roots, sc.getVals...)
	order, refs := f.collect(roots)

	usedSorts := map[Sort]bool{}
	usedVars := map[string]*Term{}
	usedFuncs := map[string]bool{}
	strLits := map[string]bool{}
	var noteSort func(s Sort)
	noteSort = func(s Sort) {
		if usedSorts[s] {
			return
		}
		usedSorts[s] = true
		if s.IsArray() {
			k, v := s.ArrayParts()
			noteSort(k)
			noteSort(v)
		} else if d, ok := f.dts.byName[string(s)]; ok {
			for _, fl := range d.Fields {
				noteSort(fl.Sort)
			}
		}
	}
	for _, t := range order {
		noteSort(t.sort)
		switch t.op {
		case "var":
			usedVars[t.name] = t
		case "app":
			usedFuncs[t.name] = true
		case "strlit":
			strLits[t.name] = true
		case "forall", "exists":
			for _, b := range t.bvars {
				noteSort(b.sort)
			}
		}
	}
	for _, ax := range sc.axioms {
		_ = ax
	}
	if cvc5 {
		sb.WriteString("(set-option :produce-models true)\n")
	}
	sb.WriteString("(set-logic ALL)\n")
	if !cvc5 {
		sb.WriteString("(set-option :produce-models true)\n")
	}
	if usedSorts[SStr] || len(strLits) > 0 {
		sb.WriteString("(declare-sort Str 0)\n")
	}
	// datatypes in declaration order
	var dts []*DTDecl
	for _, d := range f.dts.byName {
		if usedSorts[Sort(d.Name)] {
			dts = append(dts, d)
		}
	}
	sort.Slice(dts, func(i, j int) bool { return dts[i].order < dts[j].order })
	if len(dts) > 0 {
		// declare all together (mutually recursive block is the simplest safe form)
		sb.WriteString("(declare-datatypes (")
		for _, d := range dts {
			sb.WriteString("(" + smtIdent(d.Name) + " 0) ")
		}
		sb.WriteString(") (\n")
		for _, d := range dts {
			sb.WriteString(" ((" + smtIdent("mk."+d.Name))
			for _, fl := range d.Fields {
				sb.WriteString(" (" + dtSel(d.Name, fl.Name) + " " + string(fl.Sort) + ")")
			}
			sb.WriteString("))\n")
		}
		sb.WriteString("))\n")
	}
	var lits []string
	for s := range strLits {
		lits = append(lits, s)
	}
	sort.Strings(lits)
	for _, s := range lits {
		sb.WriteString("(declare-const " + strLitName(s) + " Str)\n")
	}
	if len(lits) > 1 {
		sb.WriteString("(assert (distinct")
		for _, s := range lits {
			sb.WriteString(" " + strLitName(s))
		}
		sb.WriteString("))\n")
	}
	var vnames []string
	for n := range usedVars {
		vnames = append(vnames, n)
	}
	sort.Strings(vnames)
	for _, n := range vnames {
		sb.WriteString("(declare-const " + smtIdent(n) + " " + string(usedVars[n].sort) + ")\n")
	}
	if len(lits) > 0 {
		if _, ok := f.funcs["str.len_"]; !ok {
			f.funcs["str.len_"] = &FuncDecl{name: "str.len_", args: []Sort{SStr}, ret: SInt}
		}
		usedFuncs["str.len_"] = true
	}
	var fnames []string
	for n := range usedFuncs {
		fnames = append(fnames, n)
	}
	sort.Strings(fnames)
	for _, n := range fnames {
		fd := f.funcs[n]
		sb.WriteString("(declare-fun " + smtIdent(n) + " (")
		for i, a := range fd.args {
			if i > 0 {
				sb.WriteByte(' ')
			}
			sb.WriteString(string(a))
		}
		sb.WriteString(") " + string(fd.ret) + ")\n")
	}
	for _, n := range fnames {
		if ax, ok := f.axioms[n]; ok {
			sb.WriteString(ax)
			sb.WriteByte('\n')
		}
	}
	for _, l := range lits {
		// string literal lengths
		sb.WriteString(fmt.Sprintf("(assert (= (str.len_ %s) %d))\n", strLitName(l), len(l)))
	}
	for _, ax := range sc.axioms {
		sb.WriteString(ax)
		sb.WriteByte('\n')
	}
	// shared, closed, non-leaf nodes get definitions
	names := map[*Term]string{}
	for _, t := range order {
		if len(t.args) == 0 || t.bound {
			continue
		}
		if refs[t] > 1 {
			var body strings.Builder
			f.write(&body, t, names)
			n := fmt.Sprintf("$t%d", t.id)
			sb.WriteString("(define-fun " + n + " () " + string(t.sort) + " " + body.String() + ")\n")
			names[t] = n
		}
	}
	for _, a := range sc.asserts {
		var body strings.Builder
		f.write(&body, a, names)
		sb.WriteString("(assert " + body.String() + ")\n")
	}
	sb.WriteString("(check-sat)\n")
	if len(sc.getVals) > 0 {
		sb.WriteString("(get-value (")
		for _, v := range sc.getVals {
			var body strings.Builder
			f.write(&body, v, names)
			sb.WriteString(body.String() + "\n ")
		}
		sb.WriteString("))\n")
	}
	return sb.String()
}
